from vf.runner import Entry
PROPERTY = "C15"
HARNESS = "C15.cpp"
SOURCES = []
CLAIM = ("WrappableGrid<int,2|3>: one translate(off, empty) / one write from an ARBITRARY valid state (symbolic "
         "offsets < n, every cell a symbolic 32-bit word, symbolic empty value) re-establishes the window semantics, "
         "which by induction covers histories of any length; plus 2-step histories from the pristine state")
BOUNDS = dict(quick="2D sizes (1,1),(2,3),(3,3),(4,2); 3D (1,2,2),(2,1,2); per-axis translation offset in [-(n+1), n+1]; histories of 2 translations on 2x3 and 2x2x2",
              thorough="2D sizes 1..4 x 1..4; 3D sizes 1..3 per axis; offsets in [-(n+1), n+1]; histories of 3 translations on 3x2, 2 on 2x2x3")
ASSUMPTIONS = ["grid sizes are concrete per harness entry; offsets and translations are enumerated by the solver "
               "(one path per feasible value), cell contents and the empty value stay symbolic 32-bit words",
               "pre-state is set through member access (-fno-access-control): indexOffsetsAlongAxes_, buffer_"]
OUTSIDE = ["grids larger than the listed sizes", "element types other than int", "random 50-step sequences on 8-cell grids (covered by induction, not executed)"]

def entries(tier):
    es = []
    if tier == "quick":
        s2 = [(1, 1), (2, 3), (3, 3), (4, 2)]
        s3 = [(1, 2, 2), (2, 1, 2)]
        h2, h3 = [((2, 3), 2, 0)], [((2, 2, 2), 2, 1)]
    else:
        s2 = [(a, b) for a in range(1, 5) for b in range(1, 5)]
        s3 = [(a, b, c) for a in range(1, 4) for b in range(1, 4) for c in range(1, 4)]
        h2, h3 = [((3, 2), 3, 2), ((2, 2), 3, 2)], [((2, 2, 3), 2, 1)]
    for nx, ny in s2:
        p = dict(n0=nx, n1=ny)
        es.append(Entry("c15_step2", "fp", "bv", p, budget=dict(paths=20000, time=1500)))
        es.append(Entry("c15_write2", "fp", "bv", p))
    for nx, ny, nz in s3:
        p = dict(n0=nx, n1=ny, n2=nz)
        es.append(Entry("c15_step3", "fp", "bv", p, budget=dict(paths=50000, time=3000),
                        shard=(8 if nx * ny * nz >= 8 else None)))
        es.append(Entry("c15_write3", "fp", "bv", p))
    for (nx, ny), k, hb in h2:
        es.append(Entry("c15_history2", "fp", "bv", dict(n0=nx, n1=ny, steps=k, hbound=hb),
                        budget=dict(paths=50000, time=3000), shard=8))
    for (nx, ny, nz), k, hb in h3:
        es.append(Entry("c15_history3", "fp", "bv", dict(n0=nx, n1=ny, n2=nz, steps=k, hbound=hb),
                        budget=dict(paths=100000, time=3000), shard=8))
    return es


def tv_vectors(tier):
    out = []
    # the repo's own test shape: 3x3 pristine grid translated once, plus a second translation
    cells = {"cell%d" % i: i + 1 for i in range(9)}
    out.append(("c15_history2", dict(n0=3, n1=3, steps=2, hbound=0), dict(cells, tr0=1, tr1=0, empty=0, trb0=1, trb1=-1 & 0xFFFFFFFF, emptyb=7)))
    out.append(("c15_history2", dict(n0=3, n1=3, steps=1, hbound=0), dict(cells, tr0=-1 & 0xFFFFFFFF, tr1=1, empty=5)))
    cells3 = {"cell%d" % i: 10 * i for i in range(12)}
    out.append(("c15_history3", dict(n0=2, n1=2, n2=3, steps=2, hbound=0), dict(cells3, tr0=0, tr1=0, tr2=-1 & 0xFFFFFFFF, empty=-1 & 0xFFFFFFFF, trb0=1, trb1=0, trb2=2, emptyb=3)))
    return out
