from vf.runner import Entry
PROPERTY = "C18"
HARNESS = "C18.cpp"
SOURCES = ["src/diagnostics/CheckupReliability.cpp", "src/diagnostics/Diagnostic.cpp", "src/diagnostics/DiagnosticReport.cpp",
           "src/diagnostics/DiagnosticStatus.cpp"]
NOINLINE = True
CLAIM = ("CheckupEqualTo/GreaterThan/LowerThan<double>, CheckupReliability, worse, worseStatus, allOK, DiagnosticReport += : OK exactly "
         "when |value - target| <= epsilon resp. value > minimum - epsilon resp. value < maximum + epsilon, decided both over the reals "
         "(independent |.| formulation) and bit-precisely on IEEE doubles against the thresholds fl(target -+ epsilon) for all finite "
         "64-bit inputs; returned status == stored status, message == name + the suffix of that verdict, info value == printed value; "
         "sequences of evaluate/timeout keep them in step; worse is max (commutative, associative, idempotent) on all status triples; "
         "worst status of a list is its maximum, allOK iff all OK; += concatenates diagnostics in order and merges info (first key wins)")
BOUNDS = dict(quick="3 evaluations interleaved with timeouts; lists of 1, 2, 4 symbolic statuses; aggregation of (1,1) and (2,1) diagnostics; |inputs| <= 1e300",
              thorough="lists up to 8, aggregation up to (3,3)")
ASSUMPTIONS = ["libstdc++ models (vf/stdlib.py) for std::string / std::map / std::list; toStringInfoValue returns an opaque token bound to the value",
               "bit-precise entries use z3's FloatingPoint theory (fp domain); real-domain entries read doubles as reals"]
OUTSIDE = ["NaN / infinite inputs", "the digits of the printed value", "lists of 20"]

def entries(tier):
    es = []
    for ieee in (0, 1):
        dom = ("fp", "bv") if ieee else ("real", "int")
        es.append(Entry("c18_equal_to", dom[0], dom[1], dict(ieee=ieee, evaluations=1, timeouts=0)))
        es.append(Entry("c18_equal_to", dom[0], dom[1], dict(ieee=ieee, evaluations=3, timeouts=1), budget=dict(paths=2000)))
        es.append(Entry("c18_greater_than", dom[0], dom[1], dict(ieee=ieee)))
        es.append(Entry("c18_lower_than", dom[0], dom[1], dict(ieee=ieee)))
    es.append(Entry("c18_reliability", "fp", "bv"))
    es.append(Entry("c18_worse", "fp", "bv"))
    for n in ([1, 2, 4] if tier == "quick" else [1, 2, 3, 4, 6, 8]):
        es.append(Entry("c18_lists", "fp", "bv", dict(n=n), budget=dict(paths=100000)))
    for n1, n2 in ([(1, 1), (2, 1)] if tier == "quick" else [(1, 1), (2, 1), (2, 3), (3, 3)]):
        es.append(Entry("c18_aggregate", "fp", "bv", dict(n1=n1, n2=n2), budget=dict(paths=100000)))
    return es

def tv_vectors(tier):
    return [("c18_equal_to", dict(ieee=1, evaluations=3, timeouts=1), dict(target=1.0, eps=0.1, v0=1.05, v1=0.5, v2=1.1)),
            ("c18_greater_than", dict(ieee=1), dict(target=1.0, eps=0.1, v0=0.9)),
            ("c18_reliability", {}, dict(low=0.3, high=0.7, v0=0.5)),
            ("c18_worse", {}, dict(a=1, b=3, c=0)),
            ("c18_lists", dict(n=3), dict(st0=0, st1=2, st2=1)),
            ("c18_aggregate", dict(n1=2, n2=1), dict(st0=0, st1=2, st2=1))]
