from vf.runner import Entry
from vf.lockset import LockMonitor
PROPERTY = "C19"
HARNESS = "C19.cpp"
SOURCES = ["src/monitoring/OnlineAverage.cpp", "src/monitoring/OnlineVariance.cpp", "src/monitoring/RateMonitoring.cpp",
           "src/diagnostics/CheckupRate.cpp", "src/diagnostics/CheckupReliability.cpp", "src/diagnostics/Diagnostic.cpp",
           "src/diagnostics/DiagnosticReport.cpp", "src/diagnostics/DiagnosticStatus.cpp"]
NOINLINE = True

def entries(tier):
    names = ["c19_shared_variable", "c19_shared_variable_small", "c19_shared_optional", "c19_online_average", "c19_online_variance", "c19_rate_monitoring",
             "c19_checkup_equal_to", "c19_checkup_greater_than", "c19_checkup_lower_than", "c19_checkup_reliability", "c19_checkup_rate"]
    return [Entry(n, "real", "int", lockmon=LockMonitor) for n in names]

def tv_vectors(tier):
    return []


CUSTOM_REPLAY_KINDS = ("race",)
TSAN_SOURCES = SOURCES
_tsan_cache = {}


def prepare(runner):
    from vf import build
    runner.tsan_binary = build.build_tsan("C19_tsan.cpp", TSAN_SOURCES)


def custom_replay_file(rp):
    from vf import build
    binary = build.build_tsan("C19_tsan.cpp", TSAN_SOURCES)
    scen = rp["failing_check"].split(":")[1] + (".atomic" if rp["failing_check"].startswith("atomicity:") else "")
    res = build.run_tsan(binary, scen)
    if rp["failing_check"].startswith("atomicity:"):
        return "ATOMICITY-VIOLATION" in res.get("raw", ""), dict(status=res["status"], raw=res.get("raw", "")[:300])
    return res["races"] > 0, dict(status=res["status"], tsan_races=res["races"], functions=res["functions"])


def custom_replay(runner, ent, o):
    """a lock-set finding is reported only if ThreadSanitizer sees a data race when the two methods really run concurrently;
    an atomicity finding only if the native stress scenario observes a non-serialisable outcome"""
    from vf import build
    scenario = o["id"].split(":")[1]
    if o["id"].startswith("atomicity:"):
        scenario += ".atomic"
    if scenario not in _tsan_cache:
        _tsan_cache[scenario] = build.run_tsan(runner.tsan_binary, scenario)
    res = _tsan_cache[scenario]
    if o["id"].startswith("atomicity:"):
        bad = "ATOMICITY-VIOLATION" in res.get("raw", "")
        return bad, dict(status=res["status"], atomicity_violation=bad, raw=res.get("raw", "")[:300])
    return res["races"] > 0, dict(status=res["status"], tsan_races=res["races"], functions=res["functions"])


CLAIM = ("Lock-set discipline decided on symbolic executions of every public method of SharedVariable<struct> and <double>, SharedOptionalVariable<long>, "
         "OnlineAverage, OnlineVariance, RateMonitoring, CheckupEqualTo/GreaterThan/LowerThan<double>, CheckupReliability, CheckupRate: "
         "for all inputs and all paths, two accesses by different logical threads to the object's footprint (its storage and the heap "
         "reachable from it, including the caller-side copy of a returned report) conflict only when they hold a common mutex or are "
         "both atomic - which rules out data races for any number of threads and any schedule; every public method touches the object "
         "inside ONE critical section of its mutex (a method that reads and writes the object in two critical sections is not atomic "
         "even without a data race; reported when a native stress scenario observes a non-serialisable outcome); plus the sequential semantics of "
         "store/load/consume (a value is handed to at most one consumer, in store order). A lock-set finding is reported only when "
         "ThreadSanitizer confirms a data race on a native two-thread run of the two methods")
BOUNDS = dict(quick="one call of each public method per logical thread from a warmed-up object, symbolic arguments; TSan replay: 20000 iterations per thread",
              thorough="same")
ASSUMPTIONS = ["bulk copies (memcpy/memset of the object or of a returned copy) count as accesses", "lock-set reduction: accesses protected by a common mutex or atomic are race-free; lock-free algorithms are not analysed beyond 'is atomic'",
               "pthread_mutex_lock/unlock modelled as a lock-depth counter; footprint by reachability through pointer-sized concrete cells"]
OUTSIDE = ["1e5-operation stress runs", "fairness / deadlock (one lock per sub-object)", "report consistency across CheckupRate's two sub-objects (each sub-call is atomic)"]
