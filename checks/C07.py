from vf.runner import Entry
from vf import models, ir
import z3
PROPERTY = "C07"
HARNESS = "C07.cpp"
SOURCES = ["src/regression/leastsquares/LeastSquares.cpp"]
NOINLINE = True

def cut_normal(eng, st, argv, name, ty=ir.DOUBLE):
    """at the entry of the LDLT / JacobiSVD computation: make JtJ_ opaque (symmetric, well-conditioned
    positive definite by assumption) so that nlsat sees a 3..10-variable problem"""
    this = argv[0] if "LDLT" in name or "JacobiSVD" in name else None
    mat = argv[1]
    vals, rows, cols = models.cut_dynamic_matrix(eng, st, mat, "N", ty)
    # stated bound ("full rank, bounded condition number"): N symmetric, N - mu*I positive definite
    # (smallest eigenvalue >= mu = 1e-3) and trace(N) <= n * 1e3
    M = [[vals[c * rows + r] for c in range(cols)] for r in range(rows)]
    for r in range(rows):
        for c in range(r):
            st.assume(M[r][c] == M[c][r])
    mu = z3.RealVal("1/1000")
    S = [[M[r][c] - (mu if r == c else 0) for c in range(cols)] for r in range(rows)]

    def det(A):
        k = len(A)
        if k == 1:
            return A[0][0]
        return sum(((-1) ** j) * A[0][j] * det([row[:j] + row[j + 1:] for row in A[1:]]) for j in range(k))
    for k in range(1, rows + 1):
        st.assume(det([row[:k] for row in S[:k]]) > 0)
    st.assume(sum((M[r][r] for r in range(rows)), z3.RealVal(0)) <= 1000 * rows)


def setup_real_ldlt(eng):
    eng.pre_hooks["4LDLTINS_6MatrixIdLin1ELin1ELi0ELin1ELin1EEELi1EE7computeI"] = cut_normal


def svd_post(eng, st, U, V, S, M):
    # N - mu*I positive definite (assumed in cut_normal) => every singular value of the symmetric N is >= mu
    st.assume(S[-1].e >= z3.RealVal("1/1000"))


def setup_contract(eng):
    from vf import contracts
    contracts.ldlt_contract(eng, pre=cut_normal)
    contracts.jacobi_svd_contract(eng, pre=cut_normal, post=svd_post)


def cut_normal_f(eng, st, argv, name):
    return cut_normal(eng, st, argv, name, ty=ir.FLOAT)


def setup_contract_f(eng):
    from vf import contracts
    contracts.ldlt_contract(eng, scalar="f", pre=cut_normal_f)
    contracts.jacobi_svd_contract(eng, scalar="f", pre=cut_normal_f, post=svd_post)


def entries(tier):
    es = []
    sizes = [(1, 1, 2), (1, 3, 4), (2, 2, 3), (2, 4, 6), (3, 3, 4)] if tier == "quick" else \
        [(1, 1, 2), (1, 3, 4), (2, 2, 3), (2, 4, 6), (3, 3, 4), (3, 5, 6), (4, 4, 5)]
    for n, m, cap in sizes:
        p = dict(n=n, m=m, cap=cap)
        es.append(Entry("c07_cholesky", params=p, setup=(setup_real_ldlt if n <= 2 else setup_contract), budget=dict(paths=400),
                        note="Eigen's LDLT executed symbolically" if n <= 2 else "LDLT::solve by contract (A X = I)"))
        es.append(Entry("c07_weighted", params=p, setup=(setup_real_ldlt if n <= 2 else setup_contract), budget=dict(paths=400)))
        if n <= 2:
            es.append(Entry("c07_svd", params=p, setup=setup_contract, budget=dict(paths=400), note="JacobiSVD by contract"))
    # float instantiation (same formulae over the reals; separate template instantiation of the same source)
    for n, m, cap in [(2, 2, 3), (2, 4, 6)]:
        es.append(Entry("c07_cholesky_f", params=dict(n=n, m=m, cap=cap), setup=setup_contract_f, budget=dict(paths=400)))
        es.append(Entry("c07_svd_f", params=dict(n=n, m=m, cap=cap), setup=setup_contract_f, budget=dict(paths=400)))
    for n, m1, m2 in [(2, 4, 2), (1, 3, 2)]:
        es.append(Entry("c07_history_f", params=dict(n=n, m1=m1, m2=m2), setup=setup_contract_f, budget=dict(paths=400)))
    hist = [(1, 3, 2), (2, 4, 2), (2, 2, 4)] if tier == "quick" else [(1, 3, 2), (2, 4, 2), (2, 2, 4), (3, 5, 3), (3, 3, 5)]
    for n, m1, m2 in hist:
        es.append(Entry("c07_history", params=dict(n=n, m1=m1, m2=m2), setup=(setup_real_ldlt if n <= 1 else setup_contract),
                        budget=dict(paths=400)))
    for n, m in ([(1, 2), (2, 3)] if tier == "quick" else [(1, 2), (2, 3), (3, 4)]):
        es.append(Entry("c07_preconditioner", params=dict(n=n, m=m), setup=(setup_real_ldlt if n <= 1 else setup_contract),
                        budget=dict(paths=400)))
    return es

def tv_vectors(tier):
    out = []
    v = dict(G0=9.0, G1=8.0, G2=7.0, G3=6.0, G4=5.0, G5=4.0, G40=1.0, G41=2.0, G42=3.0,
             J0=1.0, J1=0.5, J2=-1.0, J3=2.0, Y0=0.25, Y1=-3.0)
    out.append(("c07_cholesky", dict(n=2, m=2, cap=3), v))
    out.append(("c07_svd", dict(n=2, m=2, cap=3), v))
    out.append(("c07_weighted", dict(n=2, m=2, cap=3), dict(v, W0=0.5, W1=2.0)))
    out.append(("c07_history", dict(n=1, m1=3, m2=2), dict(G0=1.0, G1=2.0, G2=3.0, G40=1.0, G41=1.0, G42=2.0, W0=1.0, W1=2.0, W2=0.5, J0=2.0, J1=-1.0, Y0=3.0, Y1=0.5)))
    out.append(("c07_preconditioner", dict(n=2, m=3), dict(J0=1.0, J1=0.5, J2=-1.0, J3=2.0, J4=0.25, J5=1.5, Y0=0.25, Y1=-3.0, Y2=1.0, A0=2.0, A1=0.5, B0=1.0, B1=-1.0, variance=0.04)))
    return out

CLAIM = ("LeastSquares<double>: the matrix and right-hand side handed to the decomposition are J^T J and J^T Y of the CURRENT rows "
         "(weighted rows for weightedEstimate; stale rows beyond dataSize are symbolic garbage), and the returned vector solves that "
         "system, hence J^T (J x - Y) = 0; Eigen's LDLT is executed symbolically for estimate sizes 1..2 and replaced by the contract "
         "A X = I for size 3, JacobiSVD by its contract; a solver reused for a smaller (or larger) problem decomposes the same normal "
         "equations as a fresh one; the preconditioner is applied as A x + b and the covariance is variance * A (J^T J)^-1 A")
BOUNDS = dict(quick="(estimate, data, buffer) sizes (1,1,2) (1,3,4) (2,2,3) (2,4,6) (3,3,4); histories (n,m1,m2) (1,3,2) (2,4,2) (2,2,4); "
                    "normal matrix N with N - 1e-3*I positive definite and trace <= n*1e3 (full rank, bounded condition number)",
              thorough="adds (3,5,6), (4,4,5) and histories with n = 3")
ASSUMPTIONS = ["cut point at the decomposition call: J^T J is replaced by opaque symmetric unknowns for the solve obligation, the "
               "definitions are used for the 'is J^T J' obligation (both halves are needed for the conclusion)",
               "contracts: LDLT(A).solve(I) = X with A X = I (n = 3); JacobiSVD(M): U^T U = V^T V = I, s sorted >= 0, U diag(s) V^T = M, "
               "and s_min >= 1e-3 (min-eigenvalue theorem for the assumed N - 1e-3*I > 0)"]
OUTSIDE = ["rounding / conditioning", "float instantiation", "sizes up to 8 x 500 (the loops are size-generic; bounded by what was executed)"]
