from vf.runner import Entry
PROPERTY = "C13"
HARNESS = "C13.cpp"
SOURCES = ["src/containers/grid/GridIndexMapping.cpp"]
CLAIM = ("GridIndexMapping<double,2> / <float,3>: for every symbolic extent, resolution and in-extent point (exact-real "
         "semantics of the implemented formulae) the cell index is below the cell count on each axis and the point lies within "
         "half a resolution of the returned cell centre; every cell centre maps back to its own index, consecutive centres are one "
         "resolution apart, the first and last cells cover the extent's bounds; interval form and symmetric maximal-range form; "
         "cell counts per axis are enumerated by the solver up to the stated bound")
BOUNDS = dict(quick="cells per axis <= 4 (double 2D) / <= 3 (float 3D); bounds in [-1e3,1e3], resolution in [1e-3,10]",
              thorough="cells per axis <= 8 (2D) / <= 5 (3D)")
ASSUMPTIONS = ["floats are read as reals (exact domain): rounding in floor/ceil/division is outside the claim"]
OUTSIDE = ["IEEE rounding of the index computation", "more cells per axis than the bound (the arithmetic is size-generic; the table-filling loop is what is bounded)"]

def entries(tier):
    n = 4 if tier == "quick" else 8
    es = [Entry("c13_interval_d2", params=dict(maxcells=n, fixres=0, form=0), concretize_fptoi=True, note="symbolic resolution", budget=dict(time=260, enum_ms=3000)),
          Entry("c13_interval_f3", params=dict(maxcells=2 if tier == "quick" else 5, fixres=0, form=0), concretize_fptoi=True, note="symbolic resolution", budget=dict(time=120 if tier == "quick" else 260, enum_ms=3000))]
    # concrete resolutions: the index arithmetic is linear, every enumeration is complete
    for res in ([0.25, 1.0] if tier == "quick" else [0.25, 1.0, 0.1, 1e-3, 10.0]):
        es.append(Entry("c13_interval_d2", params=dict(maxcells=n + 2, fixres=res, form=0), concretize_fptoi=True, shard=4))
        es.append(Entry("c13_interval_f3", params=dict(maxcells=3 if tier == "quick" else 4, fixres=res, form=0), concretize_fptoi=True, shard=4))
    # symmetric maximal-range constructor
    for res in ([0.5] if tier == "quick" else [0.5, 0.1]):
        es.append(Entry("c13_interval_d2", params=dict(maxcells=n + 3, fixres=res, form=1), concretize_fptoi=True, note="symmetric maximal-range form"))
        es.append(Entry("c13_interval_f3", params=dict(maxcells=5, fixres=res, form=1), concretize_fptoi=True, note="symmetric maximal-range form"))
    return es

def tv_vectors(tier):
    return [("c13_interval_d2", dict(maxcells=100, fixres=0, form=1), dict(lo0=-1.75,lo1=-1.75,up0=1.75,up1=1.75,p0=0.3,p1=-1.75,res=0.5)),
            ("c13_interval_d2", dict(maxcells=100, fixres=0, form=0), dict(lo0=-1.0,lo1=-2.0,up0=3.0,up1=1.5,p0=0.3,p1=1.2,res=0.25))]
