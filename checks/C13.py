from vf.runner import Entry
PROPERTY = "C13"
HARNESS = "C13.cpp"
SOURCES = ["src/containers/grid/GridIndexMapping.cpp"]

def entries(tier):
    n = 4 if tier == "quick" else 8
    return [Entry("c13_interval_d2", params=dict(maxcells=n), concretize_fptoi=True),
            Entry("c13_interval_f3", params=dict(maxcells=3 if tier=="quick" else 5), concretize_fptoi=True)]

def tv_vectors(tier):
    return [("c13_interval_d2", dict(maxcells=100), dict(lo0=-1.0,lo1=-2.0,up0=3.0,up1=1.5,p0=0.3,p1=1.2,res=0.25))]
