from vf.runner import Entry
PROPERTY = "C20"
HARNESS = "C20.cpp"
SOURCES = ["src/containers/boundingbox/AxisAlignedBoundingBox.cpp", "src/containers/boundingbox/OrientedBoundingBox.cpp",
           "src/pointset/algorithms/PointSetPreconditioner.cpp"]
CLAIM = ("AxisAlignedBoundingBox / OrientedBoundingBox / Interval / PointSetPreconditioner / EigenContainers min,max: for all real "
         "centres, half extents (zero included), query points, interval pairs, symbolic orthonormal (2D, 3D) or arbitrary matrices and "
         "all point sets of N symbolic points of any sign, containment is the closed box test, the AABB of an OBB encloses it and is "
         "touched by a corner on each face, interval union is the componentwise hull, and reported min/max/mean/scale are the true "
         "componentwise extrema (attained and bounding), centroid and reciprocal of the largest side")
BOUNDS = dict(quick="point sets of N in {1,2,3,4}; 2D and 3D; double and float instantiations", thorough="N up to 8")
ASSUMPTIONS = ["exact domain: comparisons/min/max are exact in IEEE too (no rounding involved); identities involving +,-,/ (interval "
               "round trip, mean, scale, OBB frame change) are claims about the formulae over the reals"]
OUTSIDE = ["rounding in centre/half-extent arithmetic", "NaN coordinates", "point sets larger than the bound"]

def entries(tier):
    es = [Entry(n) for n in ("c20_aabb_d2", "c20_aabb_d3", "c20_aabb_f2", "c20_aabb_f3", "c20_aabb_ch_d2", "c20_aabb_ch_d3",
                             "c20_aabb_ch_f3", "c20_interval_d2", "c20_interval_f3", "c20_interval_1d", "c20_obb_inside_2",
                             "c20_obb_inside_3", "c20_obb_aabb_2", "c20_obb_aabb_3")]
    Ns = [1, 2, 3, 4] if tier == "quick" else [1, 2, 3, 4, 6, 8]
    for n in Ns:
        for t in ("v2d", "v3d", "h2d", "h3d") + (("v2f", "v3f", "h2f", "h3f") if (tier != "quick" or n <= 2) else ()):
            es.append(Entry("c20_extents_" + t, params=dict(N=n), budget=dict(paths=20000),
                            kinds=(("check", "lemma", "ub", "mem", "abort") if n == 1 else None),
                            note="N=1: the largest side is 0 and the scale is 1/0 by definition; definedness not claimed" if n == 1 else ""))
    return es

def tv_vectors(tier):
    out = []
    out.append(("c20_aabb_d2", {}, dict(lo0=-1.0, lo1=0.5, up0=2.0, up1=4.5, p0=0.0, p1=4.5)))
    out.append(("c20_extents_v2d", dict(N=3), dict(px0=1.0, px1=2.0, px3=-3.0, px4=5.0, px6=0.5, px7=-0.25)))
    out.append(("c20_extents_h3d", dict(N=2), dict(px0=1.0, px1=2.0, px2=3.0, px3=-3.0, px4=5.0, px5=9.0)))
    out.append(("c20_obb_aabb_2", {}, dict(c0=1.0, c1=2.0, h0=0.5, h1=2.0, u0=0.25, u1=-1.0, r00=0.6, r10=0.8, r01=-0.8, r11=0.6)))
    return out
