from vf.runner import Entry
import math
PROPERTY = "C12"
HARNESS = "C12.cpp"
SOURCES = ["src/transform/SmartRotation3D.cpp", "src/regression/leastsquares/LeastSquares.cpp"]
NOINLINE = True
CLAIM = ("SmartRotation3D: each entry of the reported dR/d(angle) matrices, and of dRTdAngles(T), equals the derivative - obtained by "
         "forward-mode automatic differentiation of the library's own computation of R (resp. R*T) - with respect to that angle, for all "
         "symbolic angles and vectors (exact-real semantics); counterexamples are replayed against central finite differences of the "
         "library's own map on the IEEE build; LeastSquares::computeEstimateCovariance after a Cholesky solve with a diagonal preconditioner equals variance * A (J^T J)^-1 A and the stored inverse is the inverse normal matrix")
BOUNDS = dict(quick="roll, yaw in [-pi, pi], |pitch| <= pi/2 - 0.05, |T_i| <= 1e3", thorough="same")
ASSUMPTIONS = ["forward-mode AD rules of the engine (textbook rules for + - * / sqrt sin cos atan2 asin) are trusted",
               "native replay uses central differences with step 1e-6 and relative tolerance 1e-6"]
OUTSIDE = ["covariance of the transformed 3D pose (not encoded: Jacobian of the Euler extraction through atan2/asin over 12 angle atoms)"]

def entries(tier):
    from checks import C07
    es = [Entry("c12_rotation_derivatives", ad=("ax", "ay", "az"))]
    for n, m in ([(1, 2), (2, 3)] if tier == "quick" else [(1, 2), (2, 3), (3, 4)]):
        es.append(Entry("c07_preconditioner", params=dict(n=n, m=m), setup=(C07.setup_real_ldlt if n <= 1 else C07.setup_contract),
                        budget=dict(paths=400), note="covariance = variance * A (J^T J)^-1 A for a diagonal preconditioner A"))
    return es

def tv_vectors(tier):
    return [("c12_rotation_derivatives", {}, dict(ax=0.0, ay=0.0, az=0.0, tx=0.0, ty=0.0, tz=0.0))]
