from vf.runner import Entry
import math
PROPERTY = "C12"
HARNESS = "C12.cpp"
SOURCES = ["src/transform/SmartRotation3D.cpp"]
CLAIM = ("SmartRotation3D: each entry of the reported dR/d(angle) matrices, and of dRTdAngles(T), equals the derivative - obtained by "
         "forward-mode automatic differentiation of the library's own computation of R (resp. R*T) - with respect to that angle, for all "
         "symbolic angles and vectors (exact-real semantics); counterexamples are replayed against central finite differences of the "
         "library's own map on the IEEE build")
BOUNDS = dict(quick="roll, yaw in [-pi, pi], |pitch| <= pi/2 - 0.05, |T_i| <= 1e3", thorough="same")
ASSUMPTIONS = ["forward-mode AD rules of the engine (textbook rules for + - * / sqrt sin cos atan2 asin) are trusted",
               "native replay uses central differences with step 1e-6 and relative tolerance 1e-6"]
OUTSIDE = ["covariance of the transformed 3D pose and the least-squares covariance (not yet encoded)"]

def entries(tier):
    return [Entry("c12_rotation_derivatives", ad=("ax", "ay", "az"))]

def tv_vectors(tier):
    return [("c12_rotation_derivatives", {}, dict(ax=0.0, ay=0.0, az=0.0, tx=0.0, ty=0.0, tz=0.0))]
