from vf.runner import Entry
from vf import ir
PROPERTY = "C11"
HARNESS = "C11.cpp"
SOURCES = ["src/geometry/Pose3D.cpp", "src/geometry/Pose2D.cpp", "src/geometry/Position2D.cpp", "src/geometry/Position3D.cpp",
           "src/geometry/Twist3D.cpp", "src/geometry/Twist2D.cpp", "src/geometry/PoseAndTwist3D.cpp", "src/geometry/PoseAndTwist2D.cpp",
           "src/geometry/Ellipse.cpp", "src/transform/SmartRotation3D.cpp"]
NOINLINE = True
CLAIM = ("toPose2D / toPosition3D / toTwist2D / toPoseAndTwist2D / toSe2Covariance / toSe3Covariance: every output word equals the "
         "specified input word (x, y, yaw; vx, vy, yaw rate; rows/cols 0,1,5), planar covariances embed into 6x6 and reduce back, "
         "quadratic forms on planar vectors and symmetry are preserved; operator*(Affine3d, Pose3D): position R p + T and attitude "
         "R * R(pose) compared as rotations (first column and last row, which determine a rotation), identity neutral; "
         "uncertaintyEllipse(Position2D|Pose2D): major >= minor >= 0 and R diag(M^2, m^2) R^T / sigma^2 reproduces the xy covariance "
         "for every symmetric positive semi-definite covariance, rank-deficient ones included")
BOUNDS = dict(quick="all inputs symbolic reals; attitudes and transforms with |pitch| <= pi/2 - 1e-3 and composed |R20| <= 1 - 1e-6; sigma in (0, 10]; covariance entries <= 1e8", thorough="same")
ASSUMPTIONS = ["contract: Eigen::Transform::rotation() of a transform whose linear part is a proper rotation returns that linear part",
               "contract: JacobiSVD of a symmetric positive semi-definite matrix returns U, s with U^T U = I, s sorted >= 0, U diag(s) U^T = M",
               "attitude lemmas (roll/yaw pairs) are proved before use; a lemma left unknown makes the dependent checks conditional (listed)"]
OUTSIDE = ["covariance of the transformed pose (C12)", "composition of two transforms compared through Euler extraction", "condition number up to 1e8 in IEEE"]

def rotation_contract(eng):
    """Eigen::Transform<double,3,Affine>::rotation(): polar decomposition through JacobiSVD.  Contract: for a transform whose
    linear part is a proper rotation (what the harness builds) it returns that linear part."""
    from vf import contracts
    contracts.install_overrides(eng)
    def rot(eng, st, fr, ins, a):
        sret, this = a[0], a[1]
        for c in range(3):
            for r in range(3):
                v = eng.load(st, this + (c * 4 + r) * 8, ir.DOUBLE)
                eng.store(st, sret + (c * 3 + r) * 8, ir.DOUBLE, v)
        eng.contracts_hit["Transform::rotation"] = eng.contracts_hit.get("Transform::rotation", 0) + 1
        return None
    eng.overrides.append((lambda nm: nm == "_ZNK5Eigen9TransformIdLi3ELi2ELi0EE8rotationEv", rot))

def ellipse_contract(eng):
    from vf import contracts
    contracts.jacobi_svd_contract(eng, symmetric_psd=True)

def entries(tier):
    return [Entry("c11_selection"),
            Entry("c11_action", params=dict(identity=1), setup=rotation_contract),
            Entry("c11_action", params=dict(identity=0), setup=rotation_contract, cap=120),
            Entry("c11_ellipse", params=dict(pose=0), setup=ellipse_contract),
            Entry("c11_ellipse", params=dict(pose=1), setup=ellipse_contract)]

def tv_vectors(tier):
    import math
    v = dict(x=1.0, y=2.0, z=3.0, roll=0.1, pitch=-0.2, yaw=0.3, vx=1.0, vy=0.5, vz=0.1, wx=0.01, wy=0.02, wz=0.03, w0=1.0, w1=-1.0, w2=0.5)
    v.update({"c%d" % i: float(i % 7) for i in range(36)})
    v.update({"k%d" % i: float(i % 5) for i in range(64)})
    out = [("c11_selection", {}, v)]
    out.append(("c11_action", dict(identity=0), dict(ar=0.2, ap=0.1, ay=-0.4, tx=1.0, ty=2.0, tz=3.0, x=0.5, y=-0.5, z=2.0, roll=0.3, pitch=0.2, yaw=1.0)))
    out.append(("c11_ellipse", dict(pose=0), dict(caa=4.0, cab=1.0, cbb=2.0, sigma=3.0, x=1.0, y=2.0)))
    out.append(("c11_ellipse", dict(pose=0), dict(caa=4.0, cab=2.0, cbb=1.0, sigma=1.0, x=0.0, y=0.0)))
    # rank-deficient, not axis aligned (outer products v v^T): executed concretely with the real decomposition
    for vx, vy in ((29.102, 7.2852), (3.1, 1.7), (0.37, -2.9), (-11.3, 0.77)):
        for pose in (0, 1):
            w = dict(caa=vx * vx, cab=vx * vy, cbb=vy * vy, sigma=0.5, x=1.0, y=-1.0)
            if pose:
                w.update(yaw=0.3, cyy=0.01, cxy=0.0)
            out.append(("c11_ellipse", dict(pose=pose), w))
    return out
