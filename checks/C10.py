from vf.runner import Entry
import math
PROPERTY = "C10"
HARNESS = "C10.cpp"
SOURCES = ["src/transform/SmartRotation3D.cpp"]
CLAIM = ("Euler angles / rotation matrices / quaternions / SmartRotation3D / planar pair / angle normalisers / polar and spherical "
         "coordinates (exact-real semantics, symbolic angles as unit-circle atoms): the three builders produce Rz*Ry*Rx entrywise, "
         "results are proper rotations, angles -> rotation -> angles returns the angles modulo 2 pi inside [0, 2 pi], any proper "
         "rotation with |R20| <= 1 - 1e-6 -> angles -> rotation is the identity, non-unit quaternions give the same rotation, the "
         "normalisers return a value congruent to the input inside their interval, and polar/spherical conversions are mutual inverses")
BOUNDS = dict(quick="roll, yaw in [-2pi, 2pi], |pitch| <= pi/2 - 1e-3, |R20| <= 1 - 1e-6, quaternion scale in [1e-3, 1e3], normaliser input in (-4pi, 4pi), norms in [1e-6, 1e6]; double instantiations",
              thorough="same")
ASSUMPTIONS = ["sin/cos/atan2/asin/acos by exact characterisation; fmod(x, 2pi) as x - 2 pi k with integer k",
               "double constants within 2 ulp of (p/q) pi (q <= 720) are read as that multiple of the real pi"]
OUTSIDE = ["float rounding (the float instantiations are executed over the reals)", "gimbal-lock neighbourhood", "rounding of the trigonometric chain"]

def entries(tier):
    return [Entry("c10_builders"), Entry("c10_proper"), Entry("c10_angles_roundtrip"), Entry("c10_rotation_roundtrip"),
            Entry("c10_quaternion_scale"), Entry("c10_planar"), Entry("c10_normalisers_d"), Entry("c10_polar"),
            Entry("c10_spherical"), Entry("c10_spherical_inv"),
            Entry("c10_angles_roundtrip_f", note="float instantiation (same formulae; type-dependent constants differ)"),
            Entry("c10_rotation_roundtrip_f"), Entry("c10_normalisers_f"), Entry("c10_builders_f")]

def tv_vectors(tier):
    out = []
    for r, p, y in [(0.3, -0.2, 1.0), (math.radians(60), math.radians(60), math.radians(60)), (-3.0, 1.5, 6.0), (0.0, 0.0, 0.0)]:
        v = dict(roll=r, pitch=p, yaw=y)
        for e in ("c10_builders", "c10_proper", "c10_angles_roundtrip"):
            out.append((e, {}, v))
        out.append(("c10_quaternion_scale", {}, dict(v, scale=3.5)))
    for t in (0.4, -2.0, 5.0):
        out.append(("c10_planar", {}, dict(theta=t)))
    for v in (0.5, -0.5, 7.0, -7.0, 12.0, 3.141592653589793, -12.5):
        out.append(("c10_normalisers_d", {}, dict(val=v)))
    out.append(("c10_polar", {}, dict(x=1.0, y=-2.0, range=3.0, azimut=2.5)))
    out.append(("c10_spherical", {}, dict(x=1.0, y=-2.0, z=0.5)))
    out.append(("c10_spherical_inv", {}, dict(range=2.0, azimut=-1.0, elevation=2.0)))
    c, s = math.cos(0.7), math.sin(0.7)
    out.append(("c10_rotation_roundtrip", {}, dict(r00=c, r10=s, r20=0.0, r01=-s, r11=c, r21=0.0, r02=0.0, r12=0.0, r22=1.0)))
    return out
