from vf.runner import Entry
from vf import ir
PROPERTY = "C09"
HARNESS = "C09.cpp"
SOURCES = ["src/pointset/algorithms/NormalAndCurvatureEstimation.cpp", "src/pointset/KdTree.cpp"]
NOINLINE = True
CLAIM = ("NormalAndCurvatureEstimation (Vector2d/3d, Homogeneous2d/3d; symbolic clouds; neighbour search stubbed to 'the cloud is the "
         "neighbourhood', SelfAdjointEigenSolver by contract): the estimated normal has unit length and a non-positive dot product with "
         "the point (all three overload families: normals, +curvatures, +reliabilities in 2D; normals+curvatures in 3D), curvature lies in [0, 1/DIM], the homogeneous last coordinate stays 0; in 2D additionally the normal is an "
         "eigenvector of the two-pass covariance of the neighbours for the smallest eigenvalue (= curvature * trace), no unit direction "
         "has smaller variance, and a cloud on a line not through the origin gets the line normal and zero curvature")
BOUNDS = dict(quick="clouds of k = 3 points (2D) / 4 points (3D), coordinates in [-100,100], covariance trace >= 1e-6",
              thorough="adds k = 4 in 2D, caps 30-60 s (the symbolic entry for clouds on a line not through the origin does not finish exploring within 45 min and was dropped)")
ASSUMPTIONS = ["contract SelfAdjointEigenSolver::compute(C): ascending eigenvalues, orthonormal eigenvectors (columns and rows), C V = V diag(l)",
               "stub KdTree::findNearestNeighbors: returns indexes 0..k-1 (what relates indexes to distances is C08's subject)"]
OUTSIDE = ["exact surface normal / zero curvature on a symbolic planar cloud (collinear and coplanar clouds are only executed concretely: eigenvector and curvature obligations on the translation-validation vectors)", "rotational equivariance (needs eigenvector uniqueness reasoning)", "the real eigen-solver and neighbour search", "float instantiations", "2000-point clouds"]

def setup(eng):
    from vf import contracts
    contracts.eigen_solver_contract(eng)
    contracts.install_overrides(eng)
    eng.cut_eigen_input = True
    PTR = ir.PtrT(ir.I8)

    def knn(eng, st, fr, ins, a):
        # KdTree::findNearestNeighbors(point, k, indexes&, squareDistances&): the cloud IS the neighbourhood -> indexes 0..k-1
        k = eng.load(st, a[2], ir.I64)
        idx = eng.load(st, a[3], PTR)
        for i in range(k):
            eng.store(st, idx + 8 * i, ir.I64, i)
        eng.contracts_hit["KdTree::findNearestNeighbors"] = eng.contracts_hit.get("KdTree::findNearestNeighbors", 0) + 1
        return None
    eng.overrides.append((lambda nm: "romea4core6KdTreeI" in nm and "20findNearestNeighborsE" in nm, knn))
    eng.overrides.append((lambda nm: "romea4core6KdTreeI" in nm and ("C1ERK" in nm or "C2ERK" in nm or nm.endswith("D2Ev") or nm.endswith("D1Ev")),
                          lambda eng, st, fr, ins, a: None))

HEAVY = ("eigenvector", "least-variance", "surface-normal", "zero-curvature")


def entries(tier):
    es = []
    b = dict(paths=200, feas_ms=300)
    quick = tier == "quick"
    cap = 8 if quick else 30
    es.append(Entry("c09_v2d", params=dict(k=3, planar=0, point=2, overload=0), setup=setup, budget=b, cap=cap))
    es.append(Entry("c09_v2d", params=dict(k=3, planar=0, point=1, overload=1), setup=setup, budget=b, cap=cap))
    es.append(Entry("c09_v2d", params=dict(k=3, planar=0, point=0, overload=2), setup=setup, budget=b, cap=cap, kinds=("check", "witness", "mem", "abort", "lemma")))
    es.append(Entry("c09_h2d", params=dict(k=3, planar=0, point=2, overload=0), setup=setup, budget=b, cap=cap))
    es.append(Entry("c09_h2d", params=dict(k=3, planar=0, point=1, overload=2), setup=setup, budget=b, cap=cap, kinds=("check", "witness", "mem", "abort", "lemma")))
    for fn in ("c09_v3d", "c09_h3d"):
        es.append(Entry(fn, params=dict(k=4, planar=0, point=3, overload=0), setup=setup, budget=b, cap=cap,
                        skip_ids=HEAVY + ("curvature-in",),
                        note="3D: unit length, facing, covariance lemmas; the eigenvector / least-variance / curvature obligations over a symbolic 3x3 "
                             "orthonormal eigenvector matrix are beyond the solvers (tried at caps up to 300 s: unknown) and are skipped"))
    if not quick:
        es.append(Entry("c09_v2d", params=dict(k=4, planar=0, point=3, overload=0), setup=setup, budget=b, cap=60))
    return es


def tv_vectors(tier):
    # concrete clouds executed with the REAL neighbour search and eigen-solver (interpreter and native build):
    # lines / planes closer than one unit to the origin, both sides, all four double point types
    out = []
    u = dict(u0=1.0, u1=0.0, u2=0.0, n0=0.0, n1=1.0, n2=0.0, off=0.5)
    for fn in ("c09_v2d", "c09_h2d"):
        for pts in ([(-1, .5), (0, .5), (1, .5)], [(-1, -.5), (0, -.5), (1, -.5)], [(-.5, -1), (-.5, 0), (-.5, 1)], [(-1, 0.2), (0, 0.25), (1.5, 0.3)]):
            a = dict(u)
            for i, (x, y) in enumerate(pts):
                a["p%d" % (3 * i)] = float(x)
                a["p%d" % (3 * i + 1)] = float(y)
            for q, ov in ((0, 0), (2, 1), (1, 2)):
                out.append((fn, dict(k=3, planar=0, point=q, overload=ov), a))
    # walls seen from far away (map-frame coordinates): a single-pass covariance cancels catastrophically there
    for fn in ("c09_v2d", "c09_h2d"):
        a = dict(u)
        for i, t in enumerate((0.0, 0.02, 0.05)):
            a["p%d" % (3 * i)] = 0.6 * 5e5 - 0.8 * t
            a["p%d" % (3 * i + 1)] = 0.8 * 5e5 + 0.6 * t + (1e-3 if i == 1 else 0.0)
        out.append((fn, dict(k=3, planar=0, point=1, overload=0), a))
    for fn in ("c09_v3d", "c09_h3d"):
        a = dict(u)
        for i, (s1, s2) in enumerate(((0.0, 0.0), (0.05, 0.0), (0.0, 0.05), (0.05, 0.06))):
            # plane through (2,1,2)/3 * 5e5 spanned by (1,-2,0)/sqrt5 and (-4,-2,5)/sqrt45, with a 1 mm bump on one point
            a["p%d" % (3 * i)] = 2 / 3 * 5e5 + s1 * 0.4472135955 - s2 * 0.5962847940 + (1e-3 if i == 3 else 0.0)
            a["p%d" % (3 * i + 1)] = 1 / 3 * 5e5 - s1 * 0.8944271910 - s2 * 0.2981423970
            a["p%d" % (3 * i + 2)] = 2 / 3 * 5e5 + s2 * 0.7453559925
        out.append((fn, dict(k=4, planar=0, point=1, overload=0), a))
    for fn in ("c09_v3d", "c09_h3d"):
        for z in (0.5, -0.5):
            a = dict(u)
            for i, (x, y) in enumerate([(-1, -1), (1, -1), (0, 1), (0.5, 0.25)]):
                a["p%d" % (3 * i)] = float(x)
                a["p%d" % (3 * i + 1)] = float(y)
                a["p%d" % (3 * i + 2)] = z + 0.01 * i
            for ov in (0, 1, 2):
                out.append((fn, dict(k=4, planar=0, point=1, overload=ov), a))
    return out
