from vf.runner import Entry
PROPERTY = "C04"
HARNESS = "C04.cpp"
SOURCES = ["src/transform/estimation/FindRigidTransformationBySVD.cpp", "src/pointset/algorithms/PreconditionedPointSet.cpp",
           "src/pointset/algorithms/PointSetPreconditioner.cpp", "src/pointset/algorithms/Correspondence.cpp"]
NOINLINE = True
CLAIM = ("FindRigidTransformationBySVD (all four find overloads; Vector2d/3d, Homogeneous2d/3d; symbolic points; JacobiSVD and the "
         "dynamic-size determinant by contract): last row (0..0 1); the source centroid maps to the target centroid of the corresponded "
         "pairs; in 2D additionally the linear part is orthonormal with determinant +1 and R*M is symmetric positive semi-definite for "
         "the cross-covariance M of the centred corresponded points (the characterisation of the least-squares optimal orthogonal "
         "matrix), for identity / shifted correspondence lists, aligned overloads and isotropically preconditioned sets; coplanar 3D "
         "sets under concrete rigid motions are executed concretely (interpreter and native) and must give determinant +1")
BOUNDS = dict(quick="N = 3 points (2D), 4 points (3D), coordinates in [-100,100], scale in [1e-3,1e3]; 3D: only structure and centroid obligations",
              thorough="adds N = 4 points in 2D; the 3D orthonormality / optimality / determinant obligations (products of two symbolic 3x3 orthonormal factors) were attempted at caps of 20 s and 300 s, stayed unknown and made the tier exceed 45 min: they are skipped in both tiers")
ASSUMPTIONS = ["contract JacobiSVD(M): U, V with orthonormal columns and rows, s sorted >= 0, U diag(s) V^T = M",
               "contract MatrixXd::determinant(): the mathematical determinant (Eigen uses a pivoted LU for dynamic sizes)",
               "cut point at the SVD call (the matrix handed over is opaque for obligations that do not need the points)"]
OUTSIDE = ["exact recovery 'to 1e-9' through a real SVD", "float instantiations", "500 points", "3D orthonormality/optimality in the quick tier"]

def cut_cov(eng, st, argv, name):
    # cut point: the matrix handed to JacobiSVD becomes opaque for the orthonormality / determinant obligations;
    # the obligations that relate the result to the points use the definitions (second attempt)
    from vf import models
    models.cut_dynamic_matrix(eng, st, argv[1], "Cov")


def setup(eng):
    from vf import contracts
    contracts.jacobi_svd_contract(eng, pre=cut_cov)
    contracts.determinant_contract(eng)

HEAVY_3D = ("orthonormal", "symmetric", "semidefinite", "determinant", "land-on-their-targets", "trace-of-R")


def entries(tier):
    es = []
    for fn, N in ((("c04_v2d", 3), ("c04_h2d", 3)) if tier == "quick" else (("c04_v2d", 3), ("c04_h2d", 3), ("c04_v2d", 4))):
        for mode, shift in ((0, 0), (0, 1), (1, 0), (2, 0)):
            if fn.startswith("c04_h") and mode == 0 and shift == 1:
                continue
            es.append(Entry(fn, params=dict(N=N, mode=mode, shift=shift), setup=setup, budget=dict(paths=200)))
    for fn, N in (("c04_v3d", 4), ("c04_h3d", 4)):
        for mode, shift in ((0, 1), (1, 0), (2, 0)):
            es.append(Entry(fn, params=dict(N=N, mode=mode, shift=shift), setup=setup, budget=dict(paths=200), 
                            skip_ids=HEAVY_3D,
                            note="3D: products of two symbolic 3x3 orthonormal factors are beyond the solvers; "
                                 "orthonormality / optimality / determinant obligations are skipped (structure and centroid obligations only)"))
    return es


def tv_vectors(tier):
    import math
    out = []
    c, s = math.cos(0.3), math.sin(0.3)
    pts = [(1.0, 2.0), (-3.0, 0.5), (2.0, -1.0)]
    v = {}
    for k, (x, y) in enumerate(pts):
        v["s%d" % (3 * k)] = x; v["s%d" % (3 * k + 1)] = y
        v["t%d" % (3 * k)] = c * x - s * y + 1.0; v["t%d" % (3 * k + 1)] = s * x + c * y - 2.0
    v.update(q0=1.0, q1=-0.5, q2=0.25)
    out.append(("c04_v2d", dict(N=3, mode=1, shift=0), dict(v)))
    out.append(("c04_v2d", dict(N=3, mode=2, shift=0), dict(v, scale=0.1)))
    # coplanar 3D sets under the concrete rigid motions of mode 3 (JacobiSVD's sign choice decides whether a reflection comes back)
    import random
    rnd = random.Random(12345)
    for m in range(4):
        for rep in range(2):
            w = dict(q0=1.0, q1=-0.5, q2=0.25)
            for kk in range(4):
                w["s%d" % (3 * kk)] = round(rnd.uniform(-5, 5), 3)
                w["s%d" % (3 * kk + 1)] = round(rnd.uniform(-5, 5), 3)
                w["s%d" % (3 * kk + 2)] = 0.0
            out.append(("c04_v3d", dict(N=4, mode=3, shift=0, motion=m), w))
    return out
