from vf.runner import Entry
PROPERTY = "C02"
HARNESS = "C02.cpp"
SOURCES = ["src/geodesy/ENUConverter.cpp", "src/geodesy/ECEFConverter.cpp", "src/geodesy/EarthEllipsoid.cpp",
           "src/geodesy/GeodeticCoordinates.cpp", "src/geodesy/WGS84Coordinates.cpp"]
CLAIM = ("ENUConverter (exact-real semantics, symbolic anchor latitude/longitude/height): the frame matrix is orthonormal with "
         "determinant +1, its columns are the east / north directions of the geodetic->ECEF map (by automatic differentiation of "
         "the library's own toECEF) and the outward ellipsoid normal, the anchor maps to the origin and a point dh above it to "
         "(0,0,dh), toECEF/toENU preserve distances and are mutual inverses (frame entries cut to opaque orthonormal unknowns), and "
         "one setAnchor / reset / self-anchoring step from an ARBITRARY prior object state equals fresh construction")
BOUNDS = dict(quick="anchor |lat| <= 85 deg, any lon, h in [-500, 9000]; local points within 1e5 m / 1e4 m", thorough="same")
ASSUMPTIONS = ["sin/cos are replaced by unit-circle pairs of the angle atoms (exact); sqrt by its defining relation",
               "frame/anchor entries use a symbolic ellipsoid (a within 0.1% of 6378137, e^2 in [0, 0.00689]); the isometry/history entries use GRS80 as compiled"]
OUTSIDE = ["1 mm accuracy in IEEE arithmetic", "toWGS84 of local points other than those on the anchor's vertical (that is C01's inverse)"]

def entries(tier):
    return [Entry("c02_frame", ad=("lat", "lon")), Entry("c02_anchor_points"), Entry("c02_isometry"), Entry("c02_history"),
            Entry("c02_geodetic_inverse", summarize_loops=True)]

def tv_vectors(tier):
    import math
    out = []
    for la, lo, hh, dd in ((45.78, 3.08, 365.0, 12.0), (78.0, 15.0, 120.0, 50.0), (-82.5, -120.0, 2800.0, -100.0), (0.0, 179.9, 0.0, 9000.0), (-69.9, 10.0, -400.0, 3.0), (84.9, -60.0, 8000.0, 1000.0)):
        out.append(("c02_geodetic_inverse", {}, dict(lat=math.radians(la), lon=math.radians(lo), h=hh, dh=dd, a=6378137.0, e2=0.00669438002290)))
    a = dict(lat=math.radians(45.78), lon=math.radians(3.08), h=365.0, a=6378137.0, e2=0.00669438002290)
    out.append(("c02_anchor_points", {}, dict(a, dh=12.5)))
    out.append(("c02_isometry", {}, dict(a, px=10.0, py=-20.0, pz=3.0, qx=-100.0, qy=50.0, qz=1.0, ex=4197000.0, ey=226000.0, ez=4781000.0)))
    out.append(("c02_history", {}, dict(a, op=1, was_anchored=1, old_lat=0.1, old_lon=0.2, old_h=3.0, **{"m%d" % i: float(i) for i in range(16)})))
    return out
