from vf.runner import Entry
PROPERTY = "C17"
HARNESS = "C17.cpp"
SOURCES = ["src/monitoring/RateMonitoring.cpp", "src/diagnostics/CheckupRate.cpp", "src/diagnostics/Diagnostic.cpp",
           "src/diagnostics/DiagnosticReport.cpp", "src/diagnostics/DiagnosticStatus.cpp"]
NOINLINE = True
CLAIM = ("RateMonitoring + CheckupRate<EqualTo|GreaterThan> driven by EVERY interleaving of data stamps and heartbeats of the stated "
         "length (event kinds enumerated by the solver, stamps and heartbeat delays symbolic 64-bit nanosecond counts): window size is "
         "clamp(2*rate,4,64); the rate is 0 until W+1 stamps and then W*1e9 over the span of the last W periods (telescoped oracle, "
         "exact rationals); a heartbeat more than 0.5 s after the last stamp forces the rate to 0 and reports a timeout, earlier ones "
         "change nothing; after every event status, message suffix and value string agree with each other and with the rate and "
         "threshold; 'no data received' before the first stamp; STALE with an empty value after a timeout")
BOUNDS = dict(quick="expected rate 2 Hz (W = 4), tolerance 0.5, histories of 7 events from a fresh object (all 2^7 interleavings), periods in [1 us, 10 s], heartbeat delays in [0, 3 s]; window formula for every rate in [0.5, 200]",
              thorough="adds W = 5 (2.5 Hz) with 8 events and 8-event histories for W = 4 (9/10 events exceed 45 min on 16 cores)")
ASSUMPTIONS = ["exact domain: the double division 1e9/(sum/W) and the 0.5 s comparison are over the reals",
               "libstdc++ models (vf/stdlib.py): std::string with concrete bytes, std::map red-black tree (port of tree.cc), std::list hooks, "
               "std::deque/queue executed from its IR; toStringInfoValue returns an opaque token bound to the formatted value",
               "validated per run against the native build on the translation-validation vectors"]
OUTSIDE = ["500-event histories", "the digits of the formatted rate", "rounding of the rate"]

def entries(tier):
    es = [Entry("c17_window", "real", "int", budget=dict(concretize=80))]
    ev = 7 if tier == "quick" else 8
    for fn, g in (("c17_history_eq", 0), ("c17_history_gt", 1)):
        es.append(Entry(fn, "real", "int", dict(rate=2.0, eps=0.5, W=4, events=ev, greater=g), shard=8, budget=dict(paths=100000, time=2000)))
    if tier != "quick":
        es.append(Entry("c17_history_eq", "real", "int", dict(rate=2.5, eps=0.1, W=5, events=8, greater=0), shard=16, budget=dict(paths=200000, time=3000)))
    return es

def tv_vectors(tier):
    v = {"kind%d" % i: 0 for i in range(8)}
    v.update({"dt%d" % i: 100000000 for i in range(8)})
    out = [("c17_history_eq", dict(rate=2.0, eps=0.5, W=4, events=7, greater=0), dict(v))]
    v2 = dict(v); v2["kind5"] = 1; v2["dt5"] = 600000000; v2["kind6"] = 1; v2["dt6"] = 1000
    out.append(("c17_history_gt", dict(rate=2.0, eps=0.5, W=4, events=7, greater=1), v2))
    out.append(("c17_window", {}, dict(rate=10.3)))
    return out
