from vf.runner import Entry
PROPERTY = "C06"
HARNESS = "C06.cpp"
SOURCES = ["src/transform/estimation/RansacRigidTransformationModel.cpp", "src/regression/ransac/Ransac.cpp",
           "src/regression/ransac/RansacIterations.cpp", "src/regression/ransac/RansacModel.cpp",
           "src/regression/ransac/RansacRandomCorrespondences.cpp", "src/transform/estimation/FindRigidTransformationBySVD.cpp",
           "src/transform/estimation/FindRigidTransformationByLeastSquares.cpp", "src/pointset/algorithms/PointSetPreconditioner.cpp",
           "src/pointset/algorithms/PreconditionedPointSet.cpp", "src/pointset/algorithms/Correspondence.cpp",
           "src/regression/leastsquares/LeastSquares.cpp"]
CLAIM = ("REDUCED CLAIM (the end-to-end ICP accuracy clause is not claimed, DESIGN.md section 6). RansacRigidTransformationModel<Vector2d|"
         "HomogeneousCoordinates2d>::countInliers executed from its IR for N symbolic correspondences (symbolic source/target points, "
         "symbolic affine model, symbolic noise level sigma, optional duplicate targets) from an ARBITRARY valid bookkeeping state "
         "(previous consensus of B members with RMSE < sigma): the returned count is the size of the kept consensus; a smaller consensus "
         "never replaces a larger one; an equal-size one only with smaller error; a new consensus has at least the minimal number of "
         "inliers; the reported consensus error is below sigma; every member is within 3 sigma and its stored residual is its residual "
         "under the model (gross outliers are never members). RansacIterations: starts at 1000, stays in [0,1000], never increases, "
         "equals the truncation of log(1-p)/log(1-w^s). Ransac::estimateModel against a nondeterministic model stub: fails without "
         "drawing when there are too few points, succeeds iff some consensus exceeds the sample size, on success the last model operation is the refit on the consensus (no sample drawn after it), "
         "draws at most 1000 times")
BOUNDS = dict(quick="countInliers: N = 6, 7 correspondences (up to 1 duplicate target), previous consensus 0, 6 or 7; iterations: 6..400 points, sample size 3 and 4, two updates; protocol: 5, 8, 12 points with 0, 2, 3 free draw/count results",
              thorough="N up to 10 with up to 3 duplicate targets, previous consensus up to 8; protocol with 4 free rounds")
ASSUMPTIONS = ["exact reals; coordinates in [-50,50], model entries in [-2,2] / [-50,50], sigma in [1e-3,10]",
               "bookkeeping state is set through the members (harness compiled with -fno-access-control): one inductive step covers histories of any length",
               "estimateModel protocol: RansacModel replaced by a stub whose draw()/countInliers() results are arbitrary (non-decreasing counts) for the first rounds and a full consensus afterwards"]
OUTSIDE = ["ICP loop (matching, one-to-one filtering, convergence) and the 0.015 Frobenius accuracy on test/data/scan2d.txt",
           "that RANSAC finds an all-inlier sample (sampling quality of RansacRandomCorrespondences with the real mt19937)",
           "3D and float point types", "std::unique without erase leaves duplicates of one target in the consensus (observed, not forbidden by the property)"]

def entries(tier):
    quick = tier == "quick"
    cap = 30 if quick else 200
    es = []
    plan = [(6, 0, 0), (7, 0, 6), (7, 0, 7), (7, 1, 0)] if quick else [(6, 0, 0), (6, 0, 6), (7, 0, 6), (7, 1, 0), (8, 0, 7), (8, 2, 6), (9, 1, 8), (10, 3, 6)]
    for n, dup, best in plan:
        es.append(Entry("c06_count_inliers_d2", params=dict(n=n, dup=dup, best=best), cap=cap, kinds=("check", "witness", "mem", "abort")))
    es.append(Entry("c06_count_inliers_h2", params=dict(n=7, dup=1, best=6), cap=cap, kinds=("check", "witness", "mem", "abort")))
    for d in (3, 4):
        es.append(Entry("c06_iterations", params=dict(draw=d), cap=cap))
    for n, lim in ((5, 0), (8, 2), (12, 3)) if quick else ((5, 0), (8, 2), (12, 3), (20, 4)):
        es.append(Entry("c06_estimate_protocol", params=dict(n=n, limit=lim), cap=cap))
    return es

def tv_vectors(tier):
    a = dict(sigma=0.3, prevRmse=0.2, m00=1.0, m01=0.0, m02=0.5, m10=0.0, m11=1.0, m12=-0.25)
    for i in range(8):
        a["sx%d" % i] = float(i); a["sy%d" % i] = 0.5 * i * i
        a["tx%d" % i] = float(i) + 0.5 + (0.01 * i if i < 6 else 7.0); a["ty%d" % i] = 0.5 * i * i - 0.25
        a["cd%d" % i] = 0.1 * i; a["bd%d" % i] = 0.01 * i
    return [("c06_count_inliers_d2", dict(n=8, dup=0, best=0), a), ("c06_count_inliers_d2", dict(n=8, dup=2, best=6), a),
            ("c06_count_inliers_h2", dict(n=7, dup=1, best=6), a),
            ("c06_iterations", dict(draw=3), dict(npoints=100, inliers1=70, inliers2=90)),
            ("c06_iterations", dict(draw=4), dict(npoints=40, inliers1=40, inliers2=5)),
            ("c06_estimate_protocol", dict(n=8, limit=2), dict(ok0=1, cnt0=2, ok1=0, cnt1=5)),
            ("c06_estimate_protocol", dict(n=5, limit=0), dict())]
