import os
import random
from vf.runner import Entry
PROPERTY = "C08"
HARNESS = "C08.cpp"
SOURCES = ["src/pointset/KdTree.cpp"]
CLAIM = ("KdTree<Vector2d|Vector3d|Homogeneous2d> (nanoflann build and search executed from their IR): for CONCRETE point sets "
         "(uniform, clustered, collinear, with exact duplicates; generated from VERIF_SEED) and a SYMBOLIC query point anywhere in "
         "[-1e6,1e6]^d, on every explored search path the nearest-neighbour index is valid, the reported squared distance is that of "
         "the indexed point and no point is closer; the k nearest are valid, distinct, ascending, with matching distances, and no "
         "point outside the result is closer than the k-th.  The search paths partition the query space; exploration is bounded by "
         "a path budget and reported as incomplete when it is exhausted")
ASSUMPTIONS = ["exact domain: squared distances are reals (ties are exact ties)", "point sets are concrete (only the generated family is covered)"]
OUTSIDE = ["all point sets", "5000 points", "float rounding in near ties", "k up to 50"]
BOUNDS = dict(quick="sets of 1, 3, 6, 12 points (12 > leaf size 10 forces a real tree descent), k in {1-NN, 2, 3}, 2D and 3D; path budget 1500 per shard",
              thorough="sets up to 25 points, k up to 5, path budget 10000 per shard")

def gen(kind, n, D, rnd):
    pts = []
    if kind == "uniform":
        pts = [[round(rnd.uniform(-10, 10), 2) for _ in range(D)] for _ in range(n)]
    elif kind == "clustered":
        cs = [[rnd.uniform(-10, 10) for _ in range(D)] for _ in range(2)]
        pts = [[round(c + rnd.gauss(0, 0.3), 2) for c in cs[i % 2]] for i in range(n)]
    elif kind == "collinear":
        pts = [[float(i)] + [2.0 * i + 1.0] * (D - 1) for i in range(n)]
    elif kind == "duplicates":
        base = [[round(rnd.uniform(-5, 5), 1) for _ in range(D)] for _ in range(max(1, n // 2))]
        pts = [list(base[i % len(base)]) for i in range(n)]
    return pts

def entries(tier):
    seed = int(os.environ.get("VERIF_SEED", "0"))
    rnd = random.Random(1000 + seed)
    es = []
    quick = tier == "quick"
    plan = [("c08_v2d", 2, "uniform", 1, [0]), ("c08_v2d", 2, "uniform", 3, [0, 2]), ("c08_v2d", 2, "duplicates", 6, [0, 3]),
            ("c08_v2d", 2, "uniform", 12, [0, 2]), ("c08_v3d", 3, "clustered", 6, [0, 2]), ("c08_v3d", 3, "collinear", 12, [0]),
            ("c08_h2d", 2, "uniform", 5, [0, 2])]
    if not quick:
        plan += [("c08_v2d", 2, "clustered", 25, [0, 3, 5]), ("c08_v3d", 3, "uniform", 20, [0, 3]), ("c08_v2d", 2, "collinear", 15, [0, 4])]
    for fn, D, kind, n, ks in plan:
        pts = gen(kind, n, D, rnd)
        p = {}
        for i, pt in enumerate(pts):
            for d in range(D):
                idx = 3 * i + d
                p[("pt%d" % idx) if idx < 64 else ("pu%d" % (idx - 64))] = pt[d]
        for k in ks:
            es.append(Entry(fn, params=dict(p, n=n, k=k), shard=(8 if n >= 6 else None), shard_forks=True,
                            short="%s,n=%d,k=%d" % (kind, n, k),
                            budget=dict(paths=(1500 if quick else 10000), time=(150 if quick else 1200), feas_ms=1000),
                            note="%s set of %d points, %s" % (kind, n, "nearest neighbour" if k == 0 else "%d nearest" % k)))
    return es

def tv_vectors(tier):
    rnd = random.Random(7)
    pts = gen("uniform", 12, 2, rnd)
    p = {}
    for i, pt in enumerate(pts):
        for d in range(2):
            p["pt%d" % (3 * i + d)] = pt[d]
    out = []
    for q in ((0.0, 0.0), (100.0, -50.0), (pts[3][0], pts[3][1])):
        out.append(("c08_v2d", dict(p, n=12, k=3), dict(q0=q[0], q1=q[1])))
        out.append(("c08_v2d", dict(p, n=12, k=0), dict(q0=q[0], q1=q[1])))
    return out
