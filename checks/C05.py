from vf.runner import Entry
PROPERTY = "C05"
HARNESS = "C05.cpp"
SOURCES = ["src/transform/estimation/FindRigidTransformationByLeastSquares.cpp", "src/regression/leastsquares/LeastSquares.cpp",
           "src/pointset/algorithms/PreconditionedPointSet.cpp", "src/pointset/algorithms/Correspondence.cpp",
           "src/pointset/algorithms/PointSetPreconditioner.cpp"]
CLAIM = ("FindRigidTransformationByLeastSquares (Vector2d/3d, Homogeneous2d/3d; symbolic points and normals): the design rows written "
         "by the real code are [n, s x n | (t-s).n] of the corresponded pairs, the result is identity + skew + translation whose "
         "parameters satisfy the normal equations of the linearised point-to-plane problem (LeastSquares::estimateUsingSVD replaced by "
         "the contract established in C07), index-based and aligned overloads agree, the preconditioned answer solves the "
         "unpreconditioned problem, and a pure translation is recovered exactly when the design has full rank")
BOUNDS = dict(quick="N = 3 (2D), N = 6 (3D) correspondences, identity and shifted-by-1 correspondence lists, coordinates in [-100,100], scale in [1e-3,1e3]",
              thorough="N up to 5 (2D) / 8 (3D)")
ASSUMPTIONS = ["contract (from C07): estimateUsingSVD returns A x + b with (J^T J) x = J^T Y over the first dataSize rows"]
OUTSIDE = ["O(t^2) rotation error", "conditioning", "float instantiations", "500 points"]

def setup(eng):
    from vf import contracts
    contracts.least_squares_contract(eng)

def entries(tier):
    es = []
    n2 = [3] if tier == "quick" else [3, 4, 5]
    n3 = [6] if tier == "quick" else [6, 7, 8]
    for N in n2:
        for sh in (0, 1):
            es.append(Entry("c05_solve_v2d", params=dict(N=N, shift=sh), setup=setup))
            es.append(Entry("c05_solve_h2d", params=dict(N=N, shift=sh), setup=setup))
        es.append(Entry("c05_precond_v2d", params=dict(N=N), setup=setup))
        es.append(Entry("c05_translation_v2d", params=dict(N=N), setup=setup))
    for N in n3:
        for sh in (0, 1):
            es.append(Entry("c05_solve_v3d", params=dict(N=N, shift=sh), setup=setup))
        es.append(Entry("c05_solve_h3d", params=dict(N=N, shift=0), setup=setup))
        es.append(Entry("c05_precond_v3d", params=dict(N=N), setup=setup))
    return es

def tv_vectors(tier):
    return []
