from vf.runner import Entry
import math
PROPERTY = "C03"
HARNESS = "C03.cpp"
SOURCES = ["src/geodesy/LambertConverter.cpp", "src/geodesy/EarthEllipsoid.cpp"]
CLAIM = ("LambertConverter over exact reals with exp/log/pow/tan as engine atoms (exp(t)exp(-t)=1, exp(log u)=u, log(exp t)=t, "
         "b^y (1/b)^y = 1, derivative rules): (a) conformality: d(isometric latitude)/d(lat) == M/(N cos lat) and, for toLambert built "
         "from symbolic constants (n, c, xs, ys, lon0, e), the images of meridian and parallel are orthogonal with equal local scale "
         "(partials by forward-mode differentiation of the executed IR); (b) the central meridian maps to x == xs; "
         "(c) tangent cones: projection origin -> (x0, y0), scale k0 on the tangent parallel; secant cones of either hemisphere: "
         "origin -> (x0, y0), scale 1 on the first standard parallel; (d) inverse: toWGS84(toLambert(.)) returns the longitude (cone constants +-1/2, +-3/4, both hemispheres); the true latitude is a fixed point of the "
         "computeLatitude iteration (loop abstracted by its last iteration) and toWGS84(toLambert(p)) evaluates no log of a "
         "non-positive number for northern and southern cones; (e) concrete zones (Lambert-93-like, its southern mirror): full round trip to 1e-11 rad natively")
ASSUMPTIONS = ["exact reals; eccentricity 0 <= e <= 0.1, |lat| <= 83 deg (conformality), 15..75 deg of either hemisphere (cones)",
               "secant scale check assumes the cone constant n != 0 (monotonicity of N cos lat is outside the log abstraction)",
               "inverse-defined entries take constructor constants with sign(c) == sign(n) as computeProjectionParameters produces",
               "loop summary is partial correctness: termination of computeLatitude is only observed on the concrete vectors"]
OUTSIDE = ["scale 1 on the second standard parallel (needs exp(a)exp(b)=exp(a+b) with n = log(u)/(L1-L2))", "convergence rate / termination of the latitude iteration for all inputs",
           "IEEE rounding (1e-11 rad is only observed on concrete zones)", "division-by-zero definedness of n = log(..)/(L1-L2) (reported unconfirmed)",
           "longitude part of the symbolic inverse for cone constants other than +-1/2, +-3/4; latitude through the full toWGS84 (needs log congruence)"]
BOUNDS = dict(quick="8 entries, one path each; solver cap 30 s", thorough="same entries, solver cap 300 s")

def entries(tier):
    cap = 30 if tier == "quick" else 300
    return [Entry("c03_isometric_derivative", ad=("lat",), cap=cap),
            Entry("c03_conformal", ad=("lat", "lon"), cap=cap),
            Entry("c03_tangent", cap=cap),
            Entry("c03_secant", params=dict(south=0), cap=cap),
            Entry("c03_secant", params=dict(south=1), cap=cap),
            Entry("c03_inverse_latitude", summarize_loops=True, cap=cap),
            Entry("c03_inverse_defined", params=dict(south=0), summarize_loops=True, cap=cap),
            Entry("c03_inverse_defined", params=dict(south=1), summarize_loops=True, cap=cap)] + [
            Entry("c03_inverse_longitude", params=dict(n=nn), summarize_loops=True, cap=cap, kinds=("check", "witness", "mem", "abort"))
            for nn in (0.5, -0.5, 0.75, -0.75)]

def tv_vectors(tier):
    D = math.pi / 180
    out = []
    for lat in (46.5, -40.0, 10.0, 80.0):
        out.append(("c03_isometric_derivative", {}, dict(e=0.08181919106, lat=lat * D)))
        out.append(("c03_inverse_latitude", {}, dict(e=0.08181919106, lat=lat * D)))
    out.append(("c03_conformal", {}, dict(e=0.0818, n=0.7256, c=11754255.4, xs=700000.0, ys=12655612.0, lon0=3 * D, lat=45 * D, lon=5 * D)))
    out.append(("c03_tangent", {}, dict(e=0.0818, a=6378137.0, lat0=46.8 * D, lon0=2.3 * D, k0=0.9998, x0=600000.0, y0=200000.0)))
    out.append(("c03_secant", dict(south=0), dict(e=0.0818, a=6378137.0, lat0=46.5 * D, lat1=44 * D, lat2=49 * D, lon0=3 * D, x0=700000.0, y0=6600000.0)))
    # Lambert-93 like zone and its mirror image in the southern hemisphere
    z = dict(e=0.08181919106, lat0=46.5 * D, lat1=44 * D, lat2=49 * D, lon0=3 * D)
    out.append(("c03_round_trip", z, dict(lat=45.0 * D, lon=5.0 * D)))
    zs = dict(e=0.08181919106, lat0=-46.5 * D, lat1=-49 * D, lat2=-44 * D, lon0=3 * D)
    out.append(("c03_round_trip", zs, dict(lat=-45.0 * D, lon=5.0 * D)))
    return out
