from vf.runner import Entry
PROPERTY = "C14"
HARNESS = "C14.cpp"
SOURCES = ["src/containers/grid/RayTracing.cpp", "src/containers/grid/GridIndexMapping.cpp"]
CLAIM = ("RayCasting<double,2|3> / <float,2> on a real GridIndexMapping (concrete small grid, SYMBOLIC origin and end point anywhere "
         "in the extent, cast from an object whose traversal members hold arbitrary left-overs): the result starts in the origin's "
         "cell, has L1-distance+1 entries, moves to a face-adjacent in-grid cell at every step, every entered cell is crossed by the "
         "segment (witness: the point where the segment crosses the entered face lies in the cell's closed box, parameter in [0,1]), "
         "and the last cell's closed box contains the end point (and is the end point's cell when that is strictly inside a cell); "
         "paths = origin cell x end cell x step interleaving, enumerated by the solver")
BOUNDS = dict(quick="2D: extent [0,0.5]^2, resolution 0.25 (3x3 cells), cast(origin,end) on a dirty object and cast(end) after setOriginPoint with stale traversal members",
              thorough="2D: 4x4 cells (extent 0.75); float 2D 3x3; 3D: 2x2x2 cells (5x5 in 2D and 3x3x3 in 3D exceed 45 min on 16 cores)")
ASSUMPTIONS = ["exact domain: accumulated crossing parameters are reals (rounding near corners is outside the claim)",
               "left-over traversal state: symbolic reals for tMax/tDelta/direction/points, concrete junk for steps and indexes"]
OUTSIDE = ["IEEE rounding of the DDA parameters", "grids up to 2000 cells per axis", "float rounding"]

def entries(tier):
    b = dict(paths=200000, time=3000)
    if tier == "quick":
        return [Entry("c14_cast_d2", params=dict(res=0.25, extent=0.5, dirty_step=-1, dirty_index=7, mode=1), concretize_fptoi=True, shard=12, budget=b,
                      note="setOriginPoint once, stale traversal members, then cast(end)"),
                Entry("c14_cast_d2", params=dict(res=0.25, extent=0.5, dirty_step=-1, dirty_index=7, mode=0), concretize_fptoi=True, shard=12, budget=b),
]
    return [Entry("c14_cast_d2", params=dict(res=0.25, extent=0.5, dirty_step=-1, dirty_index=7, mode=1), concretize_fptoi=True, shard=12, budget=b),
            Entry("c14_cast_d2", params=dict(res=0.25, extent=0.75, dirty_step=-1, dirty_index=7, mode=0), concretize_fptoi=True, shard=16, budget=b),
            Entry("c14_cast_f2", params=dict(res=0.25, extent=0.5, dirty_step=-1, dirty_index=7, mode=0), concretize_fptoi=True, shard=8, budget=b),
            Entry("c14_cast_d3", params=dict(res=0.25, extent=0.25, dirty_step=1, dirty_index=3, mode=0), concretize_fptoi=True, shard=16, budget=dict(paths=200000, time=1500))]

def tv_vectors(tier):
    p = dict(res=0.25, extent=0.5, dirty_step=-1, dirty_index=7, mode=0)
    g = {"g%d" % i: 0.5 * i for i in range(32)}
    return [("c14_cast_d2", p, dict(g, o0=0.05, o1=0.1, e0=0.45, e1=0.3)),
            ("c14_cast_d2", p, dict(g, o0=0.45, o1=0.45, e0=0.0, e1=0.1)),
            ("c14_cast_d2", p, dict(g, o0=0.2, o1=0.2, e0=0.2, e1=0.2)),
            ("c14_cast_d3", dict(res=0.25, extent=0.25, dirty_step=1, dirty_index=3, mode=0), dict(g, o0=0.05, o1=0.1, o2=0.2, e0=0.2, e1=0.24, e2=0.01))]
