from vf.runner import Entry
import math
PROPERTY = "C01"
HARNESS = "C01.cpp"
SOURCES = ["src/geodesy/ECEFConverter.cpp", "src/geodesy/EarthEllipsoid.cpp", "src/geodesy/GeodeticCoordinates.cpp",
           "src/geodesy/WGS84Coordinates.cpp"]
CLAIM = ("ECEFConverter over a SYMBOLIC ellipsoid (exact-real semantics): the forward map puts the point on the outward ellipsoid "
         "normal through (lat, lon) at height h (foot point on the ellipsoid, normal parallel to its gradient - independent of the "
         "N(lat) formula); the inverse returns the longitude (mod 2 pi, in [-pi, pi]); with the latitude iteration abstracted by its "
         "arbitrary last step, the true latitude is a fixed point, every exact fixed point is the true latitude, the height formula "
         "returns h there, and Cartesian -> geodetic -> Cartesian is the identity on an exact fixed point; definedness (division, "
         "sqrt) obligations are replayed on the IEEE build")
BOUNDS = dict(quick="lat in [-89.9, 89.9] deg, lon in [-pi, pi], h in [-11 km, 100 km], a within 0.1% of 6378137, e^2 in [0, 0.00689]; "
                    "Cartesian points between a-35 km and a+101 km from the centre and at least 10 km from the polar axis",
              thorough="same")
ASSUMPTIONS = ["sin/cos/atan replaced by exact unit-circle characterisations; sqrt by its defining relation",
               "the convergence loop is summarised by its last iteration (partial correctness; termination and the number of "
               "iterations are not analysed)"]
OUTSIDE = ["the 1e-9 rad / 1 mm tolerances after the iteration stops within 1e-11 (needs a contraction bound; probe timed out)",
           "IEEE rounding", "termination of the latitude iteration"]

def entries(tier):
    return [Entry("c01_forward"), Entry("c01_inverse_longitude", summarize_loops=True),
            Entry("c01_inverse_latitude", params=dict(mode=0), summarize_loops=True),
            Entry("c01_inverse_latitude", params=dict(mode=1), summarize_loops=True, cap=120),
            Entry("c01_cartesian", summarize_loops=True)]

def tv_vectors(tier):
    out = []
    ell = dict(a=6378137.0, e2=0.00669438002290)
    cities = [(45.78, 3.08, 365.0), (-37.81, 144.96, 31.0), (61.22, -149.90, 31.0), (0.0, 180.0, 0.0), (-89.9, -180.0, -11000.0), (12.0, 90.0, 1e5)]
    for la, lo, h in cities:
        v = dict(ell, lat=math.radians(la), lon=math.radians(lo), h=h)
        out.append(("c01_forward", {}, v))
        out.append(("c01_inverse_longitude", {}, v))
        out.append(("c01_inverse_latitude", dict(mode=0), v))
    out.append(("c01_cartesian", {}, dict(ell, X=4198945.0, Y=225888.0, Z=4779727.0)))
    out.append(("c01_cartesian", {}, dict(ell, X=-4130000.0, Y=2890000.0, Z=-3890000.0)))
    return out
