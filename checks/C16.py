from vf.runner import Entry
PROPERTY = "C16"
HARNESS = "C16.cpp"
SOURCES = ["src/monitoring/OnlineAverage.cpp", "src/monitoring/OnlineVariance.cpp"]
PRECS = [1.0, 0.5, 0.1, 1e-3, 1e-5, 1e-6]

def entries(tier):
    es = []
    Ws = [1, 2, 3, 5] if tier == "quick" else [1, 2, 3, 4, 5, 8, 16]
    for W in Ws:
        for prec in ([0.1, 1e-3] if tier == "quick" else PRECS):
            if W <= 5:
                es.append(Entry("c16_avg_history", "real", "int", dict(W=W, n=2 * W + 2, precision=prec)))
            es.append(Entry("c16_avg_step", "real", "int", dict(W=W, precision=prec)))
            if W >= 2:
                if W <= 5:
                    es.append(Entry("c16_var_history", "real", "int", dict(W=W, n=2 * W + 1, precision=prec)))
                es.append(Entry("c16_var_step", "real", "int", dict(W=W, precision=prec)))
    for prec in PRECS:
        es.append(Entry("c16_var_multiplier", "real", "int", dict(precision=prec)))
    for cap in ([1, 2, 3, 4, 5] if tier == "quick" else list(range(1, 17))):
        es.append(Entry("c16_ring_history", "real", "int", dict(cap=cap, n=2 * cap + 2 if cap <= 8 else cap + 3)))
    return es

def tv_vectors(tier):
    out = []
    # test_online_statistics: window 3 / values as in the repo test (variance of 1..n)
    vals = {"v%d" % i: float(i + 1) for i in range(12)}
    out.append(("c16_var_history", dict(W=5, n=11, precision=0.1), dict(vals, reset_before=11)))
    out.append(("c16_avg_history", dict(W=3, n=8, precision=0.1), dict(vals, reset_before=2)))
    out.append(("c16_ring_history", dict(cap=3, n=8), dict({"x%d" % i: float(i) for i in range(8)}, **{"y%d" % i: -float(i) for i in range(8)}, clear_before=8)))
    return out
