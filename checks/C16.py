from vf.runner import Entry
PROPERTY = "C16"
HARNESS = "C16.cpp"
SOURCES = ["src/monitoring/OnlineAverage.cpp", "src/monitoring/OnlineVariance.cpp"]
CLAIM = ("OnlineAverage / OnlineVariance / RingOfEigenVector: (a) inductive step - from an ARBITRARY valid state (symbolic "
         "fill level, replacement index, window contents) one update() re-establishes the representation invariant and the reported "
         "average / availability / unbiased variance equal those of the logical window, and reset() returns to the empty valid state, "
         "which covers histories of any length; (b) bounded histories with a reset/clear at every position, symbolic samples")
BOUNDS = dict(quick="window W in {1,2,3,5} with arbitrary windows; W = 64 with windows alternating between two symbolic values (all obligations) and with arbitrary windows (overflow obligations only, mostly unknown), precision in {0.1,1e-3} (multiplier check: all six precisions), histories of 2W+2 updates with one reset at any position; ring capacity 1..5, 2cap+2 appends with one clear at any position; |value|/precision <= 1e8",
              thorough="W in {1,2,3,4,5,8}, four precisions for the steps; W = 64 two-valued windows at all six precisions; ring capacity 1..10 (W = 16 and capacity 16 exceed 45 min on 16 cores)")
ASSUMPTIONS = ["exact domain: doubles read as reals, long long arithmetic as mathematical integers (the nsw flag makes overflow UB; |value|/precision <= 1e8 keeps sums in range)",
               "inductive pre-state installed through member access (index_, data_, sumOfData_, squaredData_, sumOfSquaredData_)"]
OUTSIDE = ["rounding of the final double division", "W up to 64 (size-generic code; bounded by what was executed)"]
PRECS = [1.0, 0.5, 0.1, 1e-3, 1e-5, 1e-6]

def entries(tier):
    es = []
    Ws = [1, 2, 3, 5] if tier == "quick" else [1, 2, 3, 4, 5, 8]
    for W in Ws:
        for prec in ([0.1, 1e-3] if tier == "quick" else [1.0, 0.1, 1e-3, 1e-6]):
            if W <= 5:
                es.append(Entry("c16_avg_history", "real", "int", dict(W=W, n=2 * W + 2, precision=prec)))
            es.append(Entry("c16_avg_step", "real", "int", dict(W=W, precision=prec, pin=-1, family=0), ub_checks=True))
            if W >= 2:
                if W <= 5:
                    es.append(Entry("c16_var_history", "real", "int", dict(W=W, n=2 * W + 1, precision=prec)))
                es.append(Entry("c16_var_step", "real", "int", dict(W=W, precision=prec, pin=-1, family=0), ub_checks=True))
    # the largest advertised window: 64-bit accumulators must not overflow for |value|/precision <= 1e8
    for prec in [1.0]:
      for pin in (63,):
        es.append(Entry("c16_var_step", "real", "int", dict(W=64, precision=prec, pin=pin, family=0), ub_checks=True,
                        budget=dict(paths=4000, time=600, concretize=200), kinds=("ub", "abort", "mem"),
                        cap=3, strict_first=False,
                        note="W = 64: only the overflow (UB) obligations are discharged at this size"))
    # largest window, two-valued windows: every obligation (overflow included) over 3 symbolic integers
    for prec in ([1.0, 1e-3] if tier == "quick" else PRECS):
        for pin in (0, 63):
            es.append(Entry("c16_var_step", "real", "int", dict(W=64, precision=prec, pin=pin, family=2), ub_checks=True,
                            budget=dict(paths=4000, time=600, concretize=200),
                            note="W = 64 with windows alternating between two symbolic values"))
    for prec in PRECS:
        es.append(Entry("c16_var_multiplier", "real", "int", dict(precision=prec)))
    for cap in ([1, 2, 3, 4, 5] if tier == "quick" else list(range(1, 11))):
        es.append(Entry("c16_ring_history", "real", "int", dict(cap=cap, n=2 * cap + 2 if cap <= 8 else cap + 3)))
    return es

def tv_vectors(tier):
    out = []
    # test_online_statistics: window 3 / values as in the repo test (variance of 1..n)
    vals = {"v%d" % i: float(i + 1) for i in range(12)}
    out.append(("c16_var_history", dict(W=5, n=11, precision=0.1), dict(vals, reset_before=11)))
    out.append(("c16_avg_history", dict(W=3, n=8, precision=0.1), dict(vals, reset_before=2)))
    out.append(("c16_ring_history", dict(cap=3, n=8), dict({"x%d" % i: float(i) for i in range(8)}, **{"y%d" % i: -float(i) for i in range(8)}, clear_before=8)))
    return out
