// static name tables for indexed symbolic inputs (no snprintf in harnesses)
#pragma once
#define VF_N16(p) p "0", p "1", p "2", p "3", p "4", p "5", p "6", p "7", p "8", p "9", p "10", p "11", p "12", p "13", p "14", p "15"
#define VF_N64(p) VF_N16(p), p "16", p "17", p "18", p "19", p "20", p "21", p "22", p "23", p "24", p "25", p "26", p "27", p "28", p "29", p "30", p "31", \
  p "32", p "33", p "34", p "35", p "36", p "37", p "38", p "39", p "40", p "41", p "42", p "43", p "44", p "45", p "46", p "47", \
  p "48", p "49", p "50", p "51", p "52", p "53", p "54", p "55", p "56", p "57", p "58", p "59", p "60", p "61", p "62", p "63"
