// vf.h — intrinsics shared by the symbolic engine (left external in the IR) and
// the native replay runtime (vf_native.cpp).
#pragma once
#include <cstdint>
#include <cstddef>
extern "C" {
double   vf_f64(const char * name);
float    vf_f32(const char * name);
int64_t  vf_i64(const char * name);
int32_t  vf_i32(const char * name);
bool     vf_bool(const char * name);
// concrete parameter of the harness (a stated bound), supplied by the check
int64_t  vf_param(const char * name);
double   vf_paramf(const char * name);
// symbolic angle with range [lo,hi] (exact domain: registers a sin/cos atom)
double   vf_angle(const char * name, double lo, double hi);
void     vf_assume(bool c);
void     vf_check(bool c, const char * id);
// prove, then assume (cut for the nonlinear solver)
void     vf_lemma(bool c, const char * id);
// derivative of v w.r.t. the symbolic input called var (forward-mode AD)
double   vf_d(double v, const char * var);
// replace n doubles at p by fresh variables (definitions kept aside)
void     vf_cut(double * p, int64_t n, const char * name);
void     vf_cutf(float * p, int64_t n, const char * name);
void     vf_observe_f64(const char * name, double v);
void     vf_observe_i64(const char * name, int64_t v);
// equality of two computed reals: exact in the symbolic domains, |a-b| <= 1e-9*max(1,|a|,|b|) on IEEE doubles
bool     vf_eq(double a, double b);
// lock-set monitor (C19): watch an object (footprint = its storage + heap reachable from it) guarded by `mutex`;
// vf_thread(k, label) attributes the following calls to logical thread k (0 = harness itself, not monitored)
void     vf_watch(const void * object, int64_t size, const void * mutex, const char * name);
void     vf_thread(int64_t k, const char * label);
void     vf_watch_end();
// k-th loop-carried value havocked by a loop summary on this path ("value at the start of the last iteration")
double   vf_havoc(int64_t k);
// states, before the loop runs, that the k-th havocked loop-carried value equals v (same as assuming vf_havoc(k) == v, but
// substituted so that engine atoms coincide)
void     vf_havoc_is(int64_t k, double v);
// 1 while executing symbolically (vf_d available), 0 in concrete runs (engine or native): use finite differences there
bool     vf_symbolic();
// native replays of float instantiations: tolerance of vf_eq / vf_angle_eq / vf_angle_congruent (symbolic runs: no effect, exact)
void     vf_tol(double t);
// like vf_eq with an explicit relative tolerance for the concrete runs
bool     vf_near(double a, double b, double tol);
// angles: equal as reals / congruent modulo 2 pi (engine: via sin/cos of the difference)
bool     vf_angle_eq(double a, double b);
bool     vf_angle_congruent(double a, double b);
// fork one path per feasible value of v (engine); identity natively
int64_t  vf_enum(int64_t v);
// marks the end of an entry: reachability witness
void     vf_reach(const char * id);
// exact-domain helpers: the real pi, and ite without forking
double   vf_pi();
}
