// C14 — ray casting on a grid
#include "vf.h"
#include "vfnames.h"
#include <cmath>
#include "romea_core_common/containers/grid/RayTracing.hpp"
using namespace romea::core;

static const char * ON[3] = {"o0", "o1", "o2"};
static const char * EN[3] = {"e0", "e1", "e2"};
static const char * GARB[32] = {VF_N16("g"), "g16", "g17", "g18", "g19", "g20", "g21", "g22", "g23", "g24", "g25", "g26", "g27", "g28", "g29", "g30", "g31"};

template<typename S, size_t D>
static void cast_any()
{
  using P = Eigen::Matrix<S, D, 1>;
  using CI = Eigen::Matrix<size_t, D, 1>;
  const S res = (S)vf_paramf("res");
  const S ext = (S)vf_paramf("extent");
  P lo = P::Zero(), up = P::Constant(ext);
  GridIndexMapping<S, D> map(Interval<S, D>(lo, up), res);
  const CI ncell = map.getNumberOfCellsAlongAxes();
  P o, e;
  for (size_t d = 0; d < D; ++d) {
    o[d] = (S)vf_f64(ON[d]);
    e[d] = (S)vf_f64(EN[d]);
    vf_assume((o[d] >= 0) & (o[d] <= ext) & (e[d] >= 0) & (e[d] <= ext));
  }
  RayCasting<S, D> rc(&map);
  // dirty object: every traversal member holds arbitrary left-overs of earlier casts
  int g = 0;
  for (size_t d = 0; d < D; ++d) {
    rc.rayTMax_[d] = (S)vf_f64(GARB[g++]);
    rc.rayTDelta_[d] = (S)vf_f64(GARB[g++]);
    rc.rayDirection_[d] = (S)vf_f64(GARB[g++]);
    rc.rayOriginPoint_[d] = (S)vf_f64(GARB[g++]);
    rc.rayEndPoint_[d] = (S)vf_f64(GARB[g++]);
    rc.rayStep_[d] = (int)vf_param("dirty_step");
    rc.rayOriginIndexes_[d] = (size_t)vf_param("dirty_index");
    rc.rayEndIndexes_[d] = (size_t)vf_param("dirty_index");
  }
  if (vf_param("mode") == 1) {
    // origin set once (as after earlier end-point-only casts from the same origin), then an end-point-only cast:
    // whatever the earlier casts left in the traversal members must not matter
    rc.setOriginPoint(o);
    int g2 = 16;
    for (size_t d = 0; d < D; ++d) {
      rc.rayTMax_[d] = (S)vf_f64(GARB[g2++]);
      rc.rayTDelta_[d] = (S)vf_f64(GARB[g2++]);
      rc.rayDirection_[d] = (S)vf_f64(GARB[g2++]);
      rc.rayEndPoint_[d] = (S)vf_f64(GARB[g2++]);
      rc.rayStep_[d] = (int)vf_param("dirty_step");
      rc.rayEndIndexes_[d] = (size_t)vf_param("dirty_index");
    }
  }
  auto ray = vf_param("mode") == 1 ? rc.cast(e) : rc.cast(o, e);
  const CI io = map.computeCellIndexes(o), ie = map.computeCellIndexes(e);
  size_t l1 = 0;
  for (size_t d = 0; d < D; ++d) {l1 += io[d] > ie[d] ? io[d] - ie[d] : ie[d] - io[d];}
  vf_check(ray.size() == l1 + 1, "length-is-L1-distance-plus-one");
  bool first = true;
  for (size_t d = 0; d < D; ++d) {first = first & (ray[0][d] == io[d]);}
  vf_check(first, "first-cell-contains-the-origin");
  const S half = res / 2;
  const P dir = e - o;
  bool walk_ok = true;
  for (size_t k = 0; k < ray.size(); ++k) {
    bool inb = true;
    for (size_t d = 0; d < D; ++d) {inb = inb & (ray[k][d] < ncell[d]);}
    vf_check(inb, "cell-inside-the-grid");
    if (!inb) {walk_ok = false; break;}
    P c = map.computeCellCenterPosition(ray[k]);
    if (k == 0) {
      bool in0 = true;
      for (size_t d = 0; d < D; ++d) {in0 = in0 & (o[d] >= c[d] - half) & (o[d] <= c[d] + half);}
      vf_check(in0, "origin-lies-in-the-first-cell-box");
      continue;
    }
    // exactly one coordinate moved by one
    int moved = 0, axis = 0, step = 0;
    for (size_t d = 0; d < D; ++d) {
      if (ray[k][d] != ray[k - 1][d]) {
        ++moved;
        axis = (int)d;
        step = ray[k][d] == ray[k - 1][d] + 1 ? 1 : (ray[k][d] + 1 == ray[k - 1][d] ? -1 : 0);
      }
    }
    vf_check((moved == 1) & (step != 0), "step-to-a-face-adjacent-cell");
    if (moved != 1 || step == 0) {walk_ok = false; break;}
    // witness that the segment meets this cell: the point where it crosses the face it was entered through
    const S border = c[axis] - step * half;
    const S t = (border - o[axis]) / dir[axis];
    bool hit = (t >= 0) & (t <= 1);
    for (size_t d = 0; d < D; ++d) {
      if ((int)d == axis) {continue;}
      const S p = o[d] + t * dir[d];
      hit = hit & (p >= c[d] - half) & (p <= c[d] + half);
    }
    vf_check(hit, "segment-crosses-the-entered-cell");
  }
  if (walk_ok) {
    P c = map.computeCellCenterPosition(ray[ray.size() - 1]);
    bool inl = true, strict = true, same = true;
    P ce = map.computeCellCenterPosition(ie);
    for (size_t d = 0; d < D; ++d) {
      inl = inl & (e[d] >= c[d] - half) & (e[d] <= c[d] + half);
      strict = strict & (e[d] > ce[d] - half) & (e[d] < ce[d] + half);
      same = same & (ray[ray.size() - 1][d] == ie[d]);
    }
    vf_check(inl, "end-point-lies-in-the-last-cell-box");
    vf_check(!strict | same, "last-cell-is-the-end-point-cell-when-not-on-a-border");
  }
  vf_reach("cast");
}
extern "C" void c14_cast_d2() { cast_any<double, 2>(); }
extern "C" void c14_cast_d3() { cast_any<double, 3>(); }
extern "C" void c14_cast_f2() { cast_any<float, 2>(); }
