// C07 — linear least squares
#include "vf.h"
#include "vfnames.h"
#include <cmath>
#include "romea_core_common/regression/leastsquares/LeastSquares.hpp"
using namespace romea::core;

static const char * JN[64] = {VF_N64("J")};
static const char * YN[64] = {VF_N64("Y")};
static const char * WN[64] = {VF_N64("W")};
static const char * GN[64] = {VF_N64("G")};   // stale garbage beyond dataSize
static const char * AN[16] = {VF_N16("A")};
static const char * BN[16] = {VF_N16("B")};


template<typename S>
static void fill(LeastSquares<S> & ls, int m, int n, const char ** jn, const char ** yn)
{
  for (int r = 0; r < m; ++r) {
    for (int c = 0; c < n; ++c) {ls.getJ()(r, c) = (S)vf_f64(jn[r * n + c]);}
    ls.getY()(r) = (S)vf_f64(yn[r]);
  }
}

// normal matrix / right-hand side handed to the decomposition == J^T J, J^T Y of the CURRENT rows,
// and the solution of the (cut) system satisfies A z = b; hence J^T (J z - Y) = 0
template<typename S, bool SVD, bool WEIGHTED>
static void solve_once()
{
  if (sizeof(S) == 4) vf_tol(1e-3);
  using LS = LeastSquares<S>;
  using VecX = Eigen::Matrix<S, Eigen::Dynamic, 1>;
  const int n = (int)vf_param("n"), m = (int)vf_param("m"), cap = (int)vf_param("cap");
  LS ls(n, cap);              // buffers larger than the problem: rows m..cap-1 are stale
  for (int r = 0; r < cap; ++r) {
    for (int c = 0; c < n; ++c) {ls.getJ()(r, c) = (S)vf_f64(GN[r * n + c]);}
    ls.getY()(r) = (S)vf_f64(GN[40 + r]);
  }
  ls.setDataSize(m);
  fill(ls, m, n, JN, YN);
  S w[16];
  for (int r = 0; r < m; ++r) {
    w[r] = 1;
    if (WEIGHTED) {
      w[r] = (S)vf_f64(WN[r]);
      vf_assume((w[r] >= 1e-3) & (w[r] <= 1e3));
      ls.getW()(r) = w[r];
    }
  }
  // oracle normal equations over the current rows (weighted rows: w_i * row_i)
  S A[4][4], b[4];
  for (int i = 0; i < n; ++i) {
    b[i] = 0;
    for (int k = 0; k < m; ++k) {b[i] += (w[k] * (S)vf_f64(JN[k * n + i])) * (w[k] * (S)vf_f64(YN[k]));}
    for (int j = 0; j < n; ++j) {
      A[i][j] = 0;
      for (int k = 0; k < m; ++k) {A[i][j] += (w[k] * (S)vf_f64(JN[k * n + i])) * (w[k] * (S)vf_f64(JN[k * n + j]));}
    }
  }
  VecX z = WEIGHTED ? ls.weightedEstimate() : (SVD ? ls.estimateUsingSVD() : ls.estimateUsingCholeskyDecomposition());
  // (i) what was decomposed is the oracle normal matrix (the engine cut JtJ_/JtY_ at the decomposition call)
  bool okA = true, okb = true;
  for (int i = 0; i < n; ++i) {
    okb = okb & vf_eq(ls.JtY_(i), b[i]);
    for (int j = 0; j < n; ++j) {okA = okA & vf_eq(ls.JtJ_(i, j), A[i][j]);}
  }
  vf_check(okA, "decomposed-matrix-is-JtJ-of-current-rows");
  vf_check(okb, "right-hand-side-is-JtY-of-current-rows");
  // (ii) the returned vector solves the decomposed system
  for (int i = 0; i < n; ++i) {
    S acc = 0;
    for (int j = 0; j < n; ++j) {acc += ls.JtJ_(i, j) * z(j);}
    vf_check(vf_eq(acc, ls.JtY_(i)), "solution-satisfies-the-normal-equations");
  }
  vf_reach("solve_once");
}
extern "C" void c07_cholesky() { solve_once<double, false, false>(); }
extern "C" void c07_svd() { solve_once<double, true, false>(); }
extern "C" void c07_weighted() { solve_once<double, false, true>(); }
extern "C" void c07_cholesky_f() { solve_once<float, false, false>(); }
extern "C" void c07_svd_f() { solve_once<float, true, false>(); }

// history: a larger problem, then a smaller one with the same object == a fresh object on the smaller problem
// (rows beyond dataSize are whatever the first problem left there; W is reset to 1 when the buffers grow)
template<typename S>
static void history()
{
  if (sizeof(S) == 4) vf_tol(1e-3);
  using LS = LeastSquares<S>;
  using VecX = Eigen::Matrix<S, Eigen::Dynamic, 1>;
  const int n = (int)vf_param("n"), m1 = (int)vf_param("m1"), m2 = (int)vf_param("m2");
  LS ls(n);
  ls.setDataSize(m1);
  fill(ls, m1, n, GN, GN + 40);
  for (int r = 0; r < m1; ++r) {ls.getW()(r) = (S)vf_f64(WN[r]);}
  VecX first = ls.weightedEstimate();
  (void)first;
  bool grew = ls.setDataSize(m2);
  fill(ls, m2, n, JN, YN);
  if (grew) {
    bool ones = true;
    for (int r = 0; r < m2; ++r) {ones = ones & (ls.getW()(r) == S(1));}
    vf_check(ones, "weights-reset-to-one-when-buffers-grow");
  }
  VecX z = ls.estimateUsingCholeskyDecomposition();
  LS fresh(n, m2);
  fill(fresh, m2, n, JN, YN);
  fresh.estimateUsingCholeskyDecomposition();
  bool same = true;
  for (int i = 0; i < n; ++i) {
    same = same & vf_eq(ls.JtY_(i), fresh.JtY_(i));
    for (int j = 0; j < n; ++j) {same = same & vf_eq(ls.JtJ_(i, j), fresh.JtJ_(i, j));}
  }
  vf_check(same, "second-problem-decomposes-the-same-normal-equations-as-a-fresh-solver");
  for (int i = 0; i < n; ++i) {
    S acc = 0;
    for (int j = 0; j < n; ++j) {acc += fresh.JtJ_(i, j) * z(j);}
    vf_check(vf_eq(acc, fresh.JtY_(i)), "reused-solver-solves-the-current-problem-only");
  }
  vf_reach("history");
}
extern "C" void c07_history() { history<double>(); }
extern "C" void c07_history_f() { history<float>(); }

// preconditioner applied as A x + b ; covariance = A^T (J^T J)^-1 A * variance for a diagonal A
extern "C" void c07_preconditioner()
{
  using LS = LeastSquares<double>;
  const int n = (int)vf_param("n"), m = (int)vf_param("m");
  LS ls(n, m);
  fill(ls, m, n, JN, YN);
  Eigen::MatrixXd Ac = Eigen::MatrixXd::Zero(n, n);
  Eigen::VectorXd Bc(n);
  for (int i = 0; i < n; ++i) {
    Ac(i, i) = vf_f64(AN[i]);
    vf_assume((Ac(i, i) >= 1e-3) & (Ac(i, i) <= 1e3));
    Bc(i) = vf_f64(BN[i]);
  }
  LS plain(n, m);
  fill(plain, m, n, JN, YN);
  Eigen::VectorXd x = plain.estimateUsingCholeskyDecomposition();
  ls.setPreconditionner(Ac, Bc);
  Eigen::VectorXd y = ls.estimateUsingCholeskyDecomposition();
  for (int i = 0; i < n; ++i) {
    vf_check(vf_eq(y(i), Ac(i, i) * x(i) + Bc(i)), "preconditioner-applied-as-A-x-plus-b");
  }
  double var = vf_f64("variance");
  vf_assume((var > 0) & (var <= 1e6));
  Eigen::MatrixXd C = ls.computeEstimateCovariance(var);
  // (J^T J) * inverse == I  and  C == A inv A * var
  for (int i = 0; i < n; ++i) {
    for (int j = 0; j < n; ++j) {
      double acc = 0;
      for (int k = 0; k < n; ++k) {acc += ls.JtJ_(i, k) * ls.inverseJtJ_(k, j);}
      vf_check(vf_eq(acc, i == j ? 1.0 : 0.0), "stored-inverse-is-the-inverse-normal-matrix");
      vf_check(vf_eq(C(i, j), Ac(i, i) * ls.inverseJtJ_(i, j) * Ac(j, j) * var), "covariance-is-variance-times-inverse-normal-matrix-through-preconditioner");
    }
  }
  vf_reach("preconditioner");
}
