// C15 — WrappableGrid: one translate / one write from an arbitrary valid state (inductive step),
// plus short histories from the pristine state.
#include "vf.h"
#include "vfnames.h"
#include "romea_core_common/containers/grid/WrappableGrid.hpp"
using namespace romea::core;

static const char * CELL[64] = {VF_N64("cell")};
static const char * OFFS[3] = {"offset0", "offset1", "offset2"};
static const char * TR[3] = {"tr0", "tr1", "tr2"};
static const char * TRB[3] = {"trb0", "trb1", "trb2"};
static const char * TRC[3] = {"trc0", "trc1", "trc2"};
static const char * NPAR[3] = {"n0", "n1", "n2"};
static const char * WI[3] = {"wi0", "wi1", "wi2"};

template<size_t DIM>
struct H
{
  using G = WrappableGrid<int, DIM>;
  using CI = typename G::CellIndexes;
  using CO = typename G::CellIndexesOffset;
  CI n;
  size_t total;

  H()
  {
    total = 1;
    for (size_t a = 0; a < DIM; ++a) {
      n[a] = (size_t)vf_param(NPAR[a]);
      total *= n[a];
    }
  }

  CI unflat(size_t k) const
  {
    CI i;
    for (size_t a = 0; a < DIM; ++a) {
      i[a] = k % n[a];
      k /= n[a];
    }
    return i;
  }

  // arbitrary valid state: offsets < n, every physical cell symbolic
  void havoc(G & g) const
  {
    for (size_t a = 0; a < DIM; ++a) {
      size_t o = (size_t)vf_i64(OFFS[a]);
      vf_assume(o < n[a]);
      g.indexOffsetsAlongAxes_[a] = (size_t)vf_enum((int64_t)o);
    }
    for (size_t k = 0; k < total; ++k) {
      g.buffer_[k] = vf_i32(CELL[k]);
    }
  }

  void snapshot(G & g, int * out) const
  {
    for (size_t k = 0; k < total; ++k) {
      out[k] = g(unflat(k));
    }
  }

  CO offsets(const char ** names, int bound) const
  {
    CO off;
    for (size_t a = 0; a < DIM; ++a) {
      int o = vf_i32(names[a]);
      int b = bound > 0 ? bound : (int)n[a] + 1;
      vf_assume((o >= -b) & (o <= b));
      off[a] = (int)vf_enum(o);
    }
    return off;
  }

  // new(i) = old(i + off) if inside else empty;   offset' = (offset + off) mod n
  void check_translate(G & g, const int * old, const CI & oldOffset, const CO & off, int empty) const
  {
    for (size_t k = 0; k < total; ++k) {
      CI i = unflat(k);
      bool inside = true;
      size_t src = 0, mul = 1;
      for (size_t a = 0; a < DIM; ++a) {
        long j = (long)i[a] + (long)off[a];
        inside = inside & (j >= 0) & (j < (long)n[a]);
        src += (size_t)j * mul;
        mul *= n[a];
      }
      int now = g(i);
      bool ok = true;
      for (size_t s = 0; s < total; ++s) {
        ok = ok & (!(inside & (src == s)) | (now == old[s]));
      }
      vf_check(ok, "surviving-cell-keeps-its-value");
      vf_check(inside | (now == empty), "entering-cell-reads-empty-value");
    }
    for (size_t a = 0; a < DIM; ++a) {
      long nn = (long)n[a];
      long e = (((long)oldOffset[a] + (long)off[a]) % nn + nn) % nn;
      vf_check(g.getIndexOffsetAlongAxes()[a] == (size_t)e, "offset-accumulates-modulo-size");
    }
  }

  void step()
  {
    G g(n);
    havoc(g);
    int old[64];
    snapshot(g, old);
    CI oldOffset = g.getIndexOffsetAlongAxes();
    CO off = offsets(TR, 0);
    int empty = vf_i32("empty");
    g.translate(off, empty);
    check_translate(g, old, oldOffset, off, empty);
    vf_reach("step");
  }

  void write()
  {
    G g(n);
    havoc(g);
    int old[64];
    snapshot(g, old);
    CI w;
    size_t wk = 0, mul = 1;
    for (size_t a = 0; a < DIM; ++a) {
      w[a] = (size_t)vf_i64(WI[a]);
      vf_assume(w[a] < n[a]);
      w[a] = (size_t)vf_enum((int64_t)w[a]);
      wk += w[a] * mul;
      mul *= n[a];
    }
    int v = vf_i32("value");
    g(w) = v;
    for (size_t k = 0; k < total; ++k) {
      int now = g(unflat(k));
      vf_check(now == (k == wk ? v : old[k]), "write-changes-only-its-cell");
    }
    vf_reach("write");
  }

  // history from the pristine state: fill, translate, translate(, translate)
  void history(int steps)
  {
    G g(n);
    for (size_t k = 0; k < total; ++k) {
      g(unflat(k)) = vf_i32(CELL[k]);
    }
    const char ** names[3] = {TR, TRB, TRC};
    static const char * EMP[3] = {"empty", "emptyb", "emptyc"};
    for (int s = 0; s < steps; ++s) {
      int old[64];
      snapshot(g, old);
      CI oldOffset = g.getIndexOffsetAlongAxes();
      CO off = offsets(names[s], (int)vf_param("hbound"));
      int empty = vf_i32(EMP[s]);
      g.translate(off, empty);
      check_translate(g, old, oldOffset, off, empty);
    }
    vf_reach("history");
  }
};

extern "C" void c15_step2() { H<2>().step(); }
extern "C" void c15_step3() { H<3>().step(); }
extern "C" void c15_write2() { H<2>().write(); }
extern "C" void c15_write3() { H<3>().write(); }
extern "C" void c15_history2() { H<2>().history((int)vf_param("steps")); }
extern "C" void c15_history3() { H<3>().history((int)vf_param("steps")); }
