// C11 — pose / twist / covariance conversions, SE(3) action on a pose, uncertainty ellipse
#include "vf.h"
#include "vfnames.h"
#include <cmath>
#include <Eigen/Geometry>
#include "romea_core_common/geometry/Pose3D.hpp"
#include "romea_core_common/geometry/Pose2D.hpp"
#include "romea_core_common/geometry/Position2D.hpp"
#include "romea_core_common/geometry/Position3D.hpp"
#include "romea_core_common/geometry/Twist3D.hpp"
#include "romea_core_common/geometry/PoseAndTwist3D.hpp"
#include "romea_core_common/math/EulerAngles.hpp"
using namespace romea::core;

static const char * CV[64] = {VF_N64("c")};
static const char * TV_[64] = {VF_N64("k")};
static const char * VV[8] = {"w0", "w1", "w2", "w3", "w4", "w5", "w6", "w7"};

static void fill6(Eigen::Matrix6d & C, const char ** names)
{
  for (int i = 0; i < 6; ++i) {
    for (int j = 0; j < 6; ++j) {C(i, j) = vf_f64(names[6 * i + j]);}
  }
}

// planar reduction keeps exactly x, y, yaw (vx, vy, wz) of mean and covariance
extern "C" void c11_selection()
{
  PoseAndTwist3D pt;
  pt.pose.position = Eigen::Vector3d(vf_f64("x"), vf_f64("y"), vf_f64("z"));
  pt.pose.orientation = Eigen::Vector3d(vf_f64("roll"), vf_f64("pitch"), vf_f64("yaw"));
  fill6(pt.pose.covariance, CV);
  pt.twist.linearSpeeds = Eigen::Vector3d(vf_f64("vx"), vf_f64("vy"), vf_f64("vz"));
  pt.twist.angularSpeeds = Eigen::Vector3d(vf_f64("wx"), vf_f64("wy"), vf_f64("wz"));
  fill6(pt.twist.covariance, TV_);
  const int sel[3] = {0, 1, 5};
  Pose2D p2 = toPose2D(pt.pose);
  bool ok = (p2.position.x() == pt.pose.position.x()) & (p2.position.y() == pt.pose.position.y()) & (p2.yaw == pt.pose.orientation.z());
  for (int i = 0; i < 3; ++i) {
    for (int j = 0; j < 3; ++j) {ok = ok & (p2.covariance(i, j) == pt.pose.covariance(sel[i], sel[j]));}
  }
  vf_check(ok, "pose2d-keeps-x-y-yaw-of-mean-and-covariance");
  Position3D q3 = toPosition3D(pt.pose);
  bool okq = true;
  for (int i = 0; i < 3; ++i) {
    okq = okq & (q3.position[i] == pt.pose.position[i]);
    for (int j = 0; j < 3; ++j) {okq = okq & (q3.covariance(i, j) == pt.pose.covariance(i, j));}
  }
  vf_check(okq, "position3d-keeps-position-and-its-covariance-block");
  Twist2D t2 = toTwist2D(pt.twist);
  bool okt = (t2.linearSpeeds.x() == pt.twist.linearSpeeds.x()) & (t2.linearSpeeds.y() == pt.twist.linearSpeeds.y()) &
    (t2.angularSpeed == pt.twist.angularSpeeds.z());
  for (int i = 0; i < 3; ++i) {
    for (int j = 0; j < 3; ++j) {okt = okt & (t2.covariance(i, j) == pt.twist.covariance(sel[i], sel[j]));}
  }
  vf_check(okt, "twist2d-keeps-vx-vy-yawrate-of-mean-and-covariance");
  PoseAndTwist2D pt2 = toPoseAndTwist2D(pt);
  bool okpt = (pt2.pose.yaw == p2.yaw) & (pt2.twist.angularSpeed == t2.angularSpeed);
  for (int i = 0; i < 3; ++i) {
    for (int j = 0; j < 3; ++j) {okpt = okpt & (pt2.pose.covariance(i, j) == p2.covariance(i, j)) & (pt2.twist.covariance(i, j) == t2.covariance(i, j));}
  }
  for (int i = 0; i < 2; ++i) {okpt = okpt & (pt2.pose.position[i] == p2.position[i]) & (pt2.twist.linearSpeeds[i] == t2.linearSpeeds[i]);}
  vf_check(okpt, "pose-and-twist-reduction-is-the-two-reductions");
  // embedding: se2 -> se3 -> se2 is the identity, everything else zero; quadratic forms agree (symmetry / PSD preserved)
  Eigen::Matrix3d C3;
  for (int i = 0; i < 3; ++i) {
    for (int j = 0; j < 3; ++j) {C3(i, j) = vf_f64(TV_[40 + 3 * i + j]);}
  }
  Eigen::Matrix6d E = toSe3Covariance(C3);
  Eigen::Matrix3d back = toSe2Covariance(E);
  bool emb = true;
  for (int i = 0; i < 6; ++i) {
    for (int j = 0; j < 6; ++j) {
      int a = i == 5 ? 2 : i, b = j == 5 ? 2 : j;
      bool in = (i < 2 || i == 5) && (j < 2 || j == 5);
      emb = emb & (E(i, j) == (in ? C3(a, b) : 0.0));
    }
  }
  for (int i = 0; i < 3; ++i) {
    for (int j = 0; j < 3; ++j) {emb = emb & (back(i, j) == C3(i, j));}
  }
  vf_check(emb, "planar-covariance-embeds-into-6x6-and-reduces-back");
  Eigen::Vector3d v(vf_f64(VV[0]), vf_f64(VV[1]), vf_f64(VV[2]));
  Eigen::Matrix<double, 6, 1> ev;
  ev << v[0], v[1], 0, 0, 0, v[2];
  double q2 = v.dot(toSe2Covariance(pt.pose.covariance) * v), q6 = ev.dot(pt.pose.covariance * ev);
  vf_check(vf_eq(q2, q6), "reduced-covariance-has-the-same-quadratic-form-on-planar-vectors");
  bool sym = true;
  Eigen::Matrix3d S2 = toSe2Covariance(pt.pose.covariance);
  // symmetric input -> symmetric output
  bool insym = true;
  for (int i = 0; i < 6; ++i) {
    for (int j = i + 1; j < 6; ++j) {insym = insym & (pt.pose.covariance(i, j) == pt.pose.covariance(j, i));}
  }
  for (int i = 0; i < 3; ++i) {
    for (int j = i + 1; j < 3; ++j) {sym = sym & (S2(i, j) == S2(j, i));}
  }
  vf_check(!insym | sym, "symmetry-preserved");
  vf_reach("selection");
}

static Eigen::Matrix3d rzyx(double r, double p, double y)
{
  const double cr = std::cos(r), sr = std::sin(r), cp = std::cos(p), sp = std::sin(p), cy = std::cos(y), sy = std::sin(y);
  Eigen::Matrix3d R;
  R << cy * cp, cy * sp * sr - sy * cr, cy * sp * cr + sy * sr,
    sy * cp, sy * sp * sr + cy * cr, sy * sp * cr - cy * sr,
    -sp, cp * sr, cp * cr;
  return R;
}

// rigid transform applied to a pose: position R p + T, attitude R * R(pose) (compared as rotations); identity neutral
extern "C" void c11_action()
{
  const double ar = vf_angle("ar", -M_PI, M_PI), ap = vf_angle("ap", -(M_PI / 2 - 1e-3), M_PI / 2 - 1e-3), ay = vf_angle("ay", -M_PI, M_PI);
  Eigen::Affine3d A = Eigen::Affine3d::Identity();
  const int ident = (int)vf_param("identity");
  Eigen::Matrix3d RA = Eigen::Matrix3d::Identity();
  if (!ident) {
    RA = rzyx(ar, ap, ay);
    A.linear() = RA;
    A.translation() = Eigen::Vector3d(vf_f64("tx"), vf_f64("ty"), vf_f64("tz"));
  }
  Pose3D pose;
  pose.position = Eigen::Vector3d(vf_f64("x"), vf_f64("y"), vf_f64("z"));
  const double r = vf_angle("roll", -M_PI, M_PI), p = vf_angle("pitch", -(M_PI / 2 - 1e-3), M_PI / 2 - 1e-3), y = vf_angle("yaw", -M_PI, M_PI);
  pose.orientation = Eigen::Vector3d(r, p, y);
  pose.covariance.setZero();
  Eigen::Matrix3d expect = RA * rzyx(r, p, y);
  // the composed rotation stays away from gimbal lock (stated in the property)
  vf_assume((expect(2, 0) <= 1 - 1e-6) & (expect(2, 0) >= -(1 - 1e-6)));
  Pose3D out = A * pose;
  Eigen::Vector3d ep = RA * pose.position + A.translation();
  vf_check(vf_eq(out.position[0], ep[0]) & vf_eq(out.position[1], ep[1]) & vf_eq(out.position[2], ep[2]), "position-is-R-p-plus-T");
  if (ident) {
    vf_check(vf_angle_congruent(out.orientation[0], r) & vf_angle_congruent(out.orientation[1], p) & vf_angle_congruent(out.orientation[2], y),
      "identity-transform-is-neutral-on-the-attitude");
  } else {
    vf_cut(expect.data(), 9, "M");
    const double cp = std::cos(out.orientation[1]), sp = std::sin(out.orientation[1]);
    vf_lemma(vf_eq(sp, -expect(2, 0)), "sin-pitch-is-minus-M20");
    vf_lemma(cp > 0, "cos-pitch-positive");
    vf_lemma(vf_eq(std::sin(out.orientation[0]) * cp, expect(2, 1)) & vf_eq(std::cos(out.orientation[0]) * cp, expect(2, 2)), "roll-pair");
    vf_lemma(vf_eq(std::sin(out.orientation[2]) * cp, expect(1, 0)) & vf_eq(std::cos(out.orientation[2]) * cp, expect(0, 0)), "yaw-pair");
    Eigen::Matrix3d got = rzyx(out.orientation[0], out.orientation[1], out.orientation[2]);
    for (int i = 0; i < 3; ++i) {
      for (int j = 0; j < 1; ++j) {vf_check(vf_eq(got(i, j), expect(i, j)), "attitude-is-R-times-pose-attitude-first-column");}
    }
    vf_check(vf_eq(got(2, 1), expect(2, 1)) & vf_eq(got(2, 2), expect(2, 2)), "attitude-is-R-times-pose-attitude-last-row");
  }
  vf_reach("action");
}

// uncertainty ellipse of a planar position / pose
extern "C" void c11_ellipse()
{
  const double a = vf_f64("caa"), b = vf_f64("cab"), c = vf_f64("cbb");
  // symmetric positive semi-definite (rank-deficient included), bounded
  vf_assume((a >= 0) & (c >= 0) & (a * c - b * b >= 0) & (a <= 1e8) & (c <= 1e8));
  double sigma = vf_f64("sigma");
  vf_assume((sigma > 0) & (sigma <= 10));
  Ellipse e = [&]() {
      if (vf_param("pose")) {
        Pose2D p;
        p.position = Eigen::Vector2d(vf_f64("x"), vf_f64("y"));
        p.yaw = vf_f64("yaw");
        p.covariance.setZero();
        p.covariance(0, 0) = a; p.covariance(0, 1) = b; p.covariance(1, 0) = b; p.covariance(1, 1) = c;
        p.covariance(2, 2) = vf_f64("cyy"); p.covariance(0, 2) = vf_f64("cxy"); p.covariance(2, 0) = p.covariance(0, 2);
        return uncertaintyEllipse(p, sigma);
      }
      Position2D p;
      p.position = Eigen::Vector2d(vf_f64("x"), vf_f64("y"));
      p.covariance << a, b, b, c;
      return uncertaintyEllipse(p, sigma);
    } ();
  const double M = e.getMajorRadius(), m = e.getMinorRadius(), th = e.getOrientation();
  vf_check((M >= m) & (m >= 0), "major-ge-minor-ge-0");
  vf_check(vf_eq(e.getCenterPosition().x(), vf_f64("x")) & vf_eq(e.getCenterPosition().y(), vf_f64("y")), "ellipse-centred-on-the-position");
  const double ct = std::cos(th), st = std::sin(th), s2 = sigma * sigma;
  const double r00 = (ct * ct * M * M + st * st * m * m) / s2, r01 = (ct * st * (M * M - m * m)) / s2, r11 = (st * st * M * M + ct * ct * m * m) / s2;
  vf_check(vf_eq(r00, a), "ellipse-reproduces-the-covariance-xx");
  vf_check(vf_eq(r01, b), "ellipse-reproduces-the-covariance-xy");
  vf_check(vf_eq(r11, c), "ellipse-reproduces-the-covariance-yy");
  vf_reach("ellipse");
}
