// C04 — rigid registration from correspondences (closed-form SVD estimator)
#include "vf.h"
#include "vfnames.h"
#include <cmath>
#include "romea_core_common/transform/estimation/FindRigidTransformationBySVD.hpp"
using namespace romea::core;

static const char * SX[64] = {VF_N64("s")};
static const char * TX[64] = {VF_N64("t")};
static const char * QV[4] = {"q0", "q1", "q2", "q3"};

template<class P> struct Dim;
template<> struct Dim<Eigen::Vector2d> { static const int D = 2; };
template<> struct Dim<Eigen::Vector3d> { static const int D = 3; };
template<> struct Dim<HomogeneousCoordinates2d> { static const int D = 2; };
template<> struct Dim<HomogeneousCoordinates3d> { static const int D = 3; };

template<class P>
static P mk(const double * v)
{
  if constexpr (Dim<P>::D == 2) {
    return P(v[0], v[1]);
  } else {
    return P(v[0], v[1], v[2]);
  }
}

// mode 0: plain sets + index correspondences (shifted by `shift`)   mode 1: aligned overload
// mode 2: both sets preconditioned by a symbolic scale, aligned overload
template<class P>
static void estimate()
{
  const int D = Dim<P>::D, N = (int)vf_param("N"), mode = (int)vf_param("mode"), shift = (int)vf_param("shift");
  double s[8][3], t[8][3];
  PointSet<P> src, tgt;
  double scale = 1.0;
  if (mode == 2) {
    scale = vf_f64("scale");
    vf_assume((scale >= 1e-3) & (scale <= 1e3));
  }
  // mode 3 (3D only): coplanar source set (z = 0) moved by a concrete rigid motion chosen by `motion`
  const int motion = mode == 3 ? (int)vf_param("motion") : 0;
  static const double ROT[4][9] = {
    {0.36, 0.48, -0.8, -0.8, 0.6, 0.0, 0.48, 0.64, 0.6},
    {0.0, 0.0, 1.0, 1.0, 0.0, 0.0, 0.0, 1.0, 0.0},
    {0.6, 0.0, 0.8, 0.0, 1.0, 0.0, -0.8, 0.0, 0.6},
    {1.0, 0.0, 0.0, 0.0, 0.28, -0.96, 0.0, 0.96, 0.28}};
  for (int k = 0; k < N; ++k) {
    for (int d = 0; d < D; ++d) {
      s[k][d] = vf_f64(SX[3 * k + d]);
      if (mode != 3) {t[k][d] = vf_f64(TX[3 * k + d]);} else {t[k][d] = 0;}
      vf_assume((s[k][d] <= 100) & (s[k][d] >= -100) & (t[k][d] <= 100) & (t[k][d] >= -100));
    }
    if (mode == 3) {
      vf_assume(s[k][D - 1] == 0);
      for (int i = 0; i < D; ++i) {
        t[k][i] = 1.5 * (i + 1);
        for (int j = 0; j < D; ++j) {t[k][i] += ROT[motion][D * i + j] * s[k][j];}
      }
    }
    src.push_back(mk<P>(s[k]));
    tgt.push_back(mk<P>(t[k]));
  }
  if (mode == 3) {
    // not all collinear: the first three points span the plane
    double ax = s[1][0] - s[0][0], ay = s[1][1] - s[0][1], bx = s[2][0] - s[0][0], by = s[2][1] - s[0][1];
    double area = ax * by - ay * bx;
    vf_assume((area >= 1) | (area <= -1));
  }
  // pairing used by this call: source k <-> target (k + shift) % N
  // oracle: centroids and cross-covariance of the centred corresponded points
  double sm[3] = {0, 0, 0}, tm[3] = {0, 0, 0}, M[3][3];
  for (int k = 0; k < N; ++k) {
    for (int d = 0; d < D; ++d) {sm[d] += s[k][d]; tm[d] += t[(k + shift) % N][d];}
  }
  for (int d = 0; d < D; ++d) {sm[d] /= N; tm[d] /= N;}
  for (int i = 0; i < D; ++i) {
    for (int j = 0; j < D; ++j) {
      M[i][j] = 0;
      // (mode 2: the code sees both sets scaled; the oracle is written on the scaled coordinates so that it is the same
      // polynomial as the matrix the code builds - R M symmetric / PSD is invariant under the positive factor scale^2)
      for (int k = 0; k < N; ++k) {
        if (mode == 2) {
          M[i][j] += (s[k][i] * scale - sm[i] * scale) * (t[(k + shift) % N][j] * scale - tm[j] * scale);
        } else {
          M[i][j] += (s[k][i] - sm[i]) * (t[(k + shift) % N][j] - tm[j]);
        }
      }
    }
  }
  // cut point: the oracle cross-covariance becomes fresh variables, shared with the matrix the code hands to the SVD when both
  // are the same polynomial
  for (int i = 0; i < D; ++i) {vf_cut(&M[i][0], D, "M");}
  FindRigidTransformationBySVD<P> est;
  typename FindRigidTransformationBySVD<P>::TransformationMatrixType H;
  if (mode == 0) {
    std::vector<Correspondence> corr;
    for (int k = 0; k < N; ++k) {corr.push_back(Correspondence(k, (k + shift) % N));}
    H = est.find(src, tgt, corr);
  } else if (mode == 1 || mode == 3) {
    H = est.find(src, tgt);
  } else {
    PreconditionedPointSet<P> ps(src, scale), pt(tgt, scale);
    H = est.find(ps, pt);
  }
  // linear part orthonormal, last row (0 .. 0 1)
  for (int i = 0; i < D; ++i) {
    for (int j = i; j < D; ++j) {
      double dot = 0;
      for (int k = 0; k < D; ++k) {dot += H(k, i) * H(k, j);}
      vf_check(vf_eq(dot, i == j ? 1.0 : 0.0), "linear-part-is-orthonormal");
    }
  }
  bool last = vf_eq(H(D, D), 1.0);
  for (int j = 0; j < D; ++j) {last = last & vf_eq(H(D, j), 0.0);}
  vf_check(last, "last-row-is-0-0-1");
  // centroid maps to centroid
  for (int i = 0; i < D; ++i) {
    double v = H(i, D);
    for (int j = 0; j < D; ++j) {v += H(i, j) * sm[j];}
    vf_check(vf_eq(v, tm[i]), "source-centroid-maps-to-target-centroid");
  }
  // least-squares optimality among orthogonal matrices: R * M^T ... with M = sum (s-sm)(t-tm)^T, R M is symmetric PSD
  double RM[3][3];
  for (int i = 0; i < D; ++i) {
    for (int j = 0; j < D; ++j) {
      RM[i][j] = 0;
      for (int k = 0; k < D; ++k) {RM[i][j] += H(i, k) * M[k][j];}
    }
  }
  for (int i = 0; i < D; ++i) {
    for (int j = i + 1; j < D; ++j) {vf_check(vf_eq(RM[i][j], RM[j][i]), "R-times-cross-covariance-is-symmetric");}
  }
  double q[3] = {vf_f64(QV[0]), vf_f64(QV[1]), vf_f64(QV[2])}, quad = 0;
  for (int i = 0; i < D; ++i) {
    for (int j = 0; j < D; ++j) {quad += q[i] * RM[i][j] * q[j];}
  }
  // (when det M < 0 the best proper rotation leaves one negative eigenvalue -s_min: the PSD clause applies to det M >= 0)
  double detM;
  if (D == 2) {
    detM = M[0][0] * M[1][1] - M[0][1] * M[1][0];
  } else {
    detM = M[0][0] * (M[1][1] * M[2][2] - M[1][2] * M[2][1]) - M[0][1] * (M[1][0] * M[2][2] - M[1][2] * M[2][0]) +
      M[0][2] * (M[1][0] * M[2][1] - M[1][1] * M[2][0]);
  }
  vf_check((detM < 0) | (quad >= -1e-9 * (1 + q[0] * q[0] + q[1] * q[1] + q[2] * q[2])), "R-times-cross-covariance-is-positive-semidefinite");
  // whatever the sign of det M, the optimal proper rotation maximises trace(R M): the value is s1 + .. +- s_min >= 0
  // (a wrongly chosen reflection correction gives a symmetric R M with negative trace)
  double trRM = 0, absM = 0;
  for (int i = 0; i < D; ++i) {
    trRM += RM[i][i];
    for (int j = 0; j < D; ++j) {absM += M[i][j] * M[i][j];}
  }
  vf_check(trRM >= -1e-9 * (1 + absM), "trace-of-R-times-cross-covariance-is-nonnegative");
  // proper rotation
  double det;
  if (D == 2) {
    det = H(0, 0) * H(1, 1) - H(0, 1) * H(1, 0);
  } else {
    det = H(0, 0) * (H(1, 1) * H(2, 2) - H(1, 2) * H(2, 1)) - H(0, 1) * (H(1, 0) * H(2, 2) - H(1, 2) * H(2, 0)) +
      H(0, 2) * (H(1, 0) * H(2, 1) - H(1, 1) * H(2, 0));
  }
  vf_check(vf_eq(det, 1.0), "linear-part-has-determinant-plus-one");
  if (mode == 3) {
    // an exact rigid motion of a non-collinear set is recovered exactly: every source point lands on its target
    bool maps = true;
    for (int k = 0; k < N; ++k) {
      for (int i = 0; i < D; ++i) {
        double v = H(i, D);
        for (int j = 0; j < D; ++j) {v += H(i, j) * s[k][j];}
        maps = maps & vf_near(v, t[k][i], 1e-7);
      }
    }
    vf_check(maps, "rigidly-moved-points-land-on-their-targets");
  }
  vf_reach("estimate");
}
extern "C" void c04_v2d() { estimate<Eigen::Vector2d>(); }
extern "C" void c04_v3d() { estimate<Eigen::Vector3d>(); }
extern "C" void c04_h2d() { estimate<HomogeneousCoordinates2d>(); }
extern "C" void c04_h3d() { estimate<HomogeneousCoordinates3d>(); }
