// C16 — OnlineAverage / OnlineVariance / RingOfEigenVector: window semantics.
// (a) inductive step from an arbitrary valid state, (b) bounded histories with a reset/clear
#include "vf.h"
#include "vfnames.h"
#include <cmath>
#include "romea_core_common/monitoring/OnlineAverage.hpp"
#include "romea_core_common/monitoring/OnlineVariance.hpp"
#include "romea_core_common/containers/Eigen/RingOfEigenVector.hpp"
using namespace romea::core;

static const char * V[64] = {VF_N64("v")};
static const char * D[64] = {VF_N64("d")};
static const char * XS[64] = {VF_N64("x")};
static const char * YS[64] = {VF_N64("y")};

static const double LIM = 1e8;

static double sample(const char * name, double mult)
{
  double v = vf_f64(name);
  // |value| / precision <= 1e8
  vf_assume((v * mult <= LIM) & (v * mult >= -LIM));
  return v;
}

// ------------------------------------------------------------------ histories
// `n` updates; a reset is performed before update number `r` (r enumerated by the solver;
// r == n means no reset).  The harness keeps the plain list of truncated samples since reset.
template<class S, bool VAR>
static void history()
{
  const size_t W = (size_t)vf_param("W");
  const int n = (int)vf_param("n");
  const double prec = vf_paramf("precision");
  S s(prec, W);
  const double mult = (double)s.multiplier_;
  int r = (int)vf_i64("reset_before");
  vf_assume((r >= 0) & (r <= n));
  r = (int)vf_enum(r);
  long long win[64];
  int cnt = 0;
  for (int k = 0; k < n; ++k) {
    if (k == r) {
      s.reset();
      cnt = 0;
      vf_check(!s.isAvailable() || W == 0, "not-available-after-reset");
    }
    double v = sample(V[k], mult);
    long long t = (long long)(v * mult);
    s.update(v);
    win[cnt++] = t;
    int m = cnt < (int)W ? cnt : (int)W;
    // mean of the last m truncated samples since the last reset
    long long sum = 0;
    for (int j = cnt - m; j < cnt; ++j) {sum += win[j];}
    double mean = (double)sum / (mult * m);
    vf_check(s.getAverage() == mean, "average-is-mean-of-last-min(n,W)-since-reset");
    vf_check(s.isAvailable() == (cnt >= (int)W), "available-iff-W-samples-since-reset");
    if constexpr (VAR) {
      if (cnt >= (int)W) {
        // unbiased sample variance of the W truncated samples (two-pass form)
        double acc = 0;
        for (int j = cnt - m; j < cnt; ++j) {
          double dlt = (double)win[j] / mult - mean;
          acc += dlt * dlt;
        }
        vf_check(s.getVariance() == acc / (m - 1), "variance-is-unbiased-sample-variance-of-window");
      }
    }
  }
  vf_reach("history");
}

extern "C" void c16_avg_history() { history<OnlineAverage, false>(); }
extern "C" void c16_var_history() { history<OnlineVariance, true>(); }

// ------------------------------------------------------------------ inductive step
// valid state: fill level s <= W; when s < W the next slot is s (index == s); when s == W the slot
// `index` holds the oldest sample.  Logical window, oldest first: slots index, index+1, ... (mod W)
// when full, else slots 0..s-1.
template<class S, bool VAR>
static void step()
{
  const size_t W = (size_t)vf_param("W");
  const double prec = vf_paramf("precision");
  S s(prec, W);
  const double mult = (double)s.multiplier_;
  size_t fill = (size_t)vf_i64("fill");
  vf_assume(fill <= W);
  const long pin = (long)vf_param("pin");      // >= 0: only the full window with this replacement index
  if (pin >= 0) {vf_assume(fill == W);}
  fill = (size_t)vf_enum((int64_t)fill);
  size_t index = fill;
  if (fill == W) {
    index = (size_t)vf_i64("index");
    vf_assume(index < W);
    if (pin >= 0) {vf_assume(index == (size_t)pin);}
    index = (size_t)vf_enum((int64_t)index);
  }
  long long logical[65];
  long long sum = 0, sumsq = 0;
  // family 0: every window element is its own symbolic value.  family 2: the window alternates between two symbolic values
  // (a reachable two-parameter family: feed x, y, x, y, ...), which keeps the largest windows within the solvers' reach
  const long fam = (long)vf_param("family");
  long long dx = 0, dy = 0;
  if (fam == 2) {
    dx = vf_i64(D[0]);
    dy = vf_i64(D[1]);
    vf_assume((dx <= (long long)LIM) & (dx >= -(long long)LIM));
    vf_assume((dy <= (long long)LIM) & (dy >= -(long long)LIM));
  }
  for (size_t k = 0; k < fill; ++k) {
    long long d = fam == 2 ? (k % 2 ? dy : dx) : vf_i64(D[k]);
    if (fam != 2) vf_assume((d <= (long long)LIM) & (d >= -(long long)LIM));
    s.data_.push_back(d);
    sum += d;
    if constexpr (VAR) {
      s.squaredData_.push_back(d * d);
      sumsq += d * d;
    }
  }
  for (size_t k = 0; k < fill; ++k) {
    logical[k] = s.data_[fill == W ? (index + k) % W : k];
  }
  s.index_ = index % (W ? W : 1);
  s.sumOfData_ = sum;
  if constexpr (VAR) {s.sumOfSquaredData_ = sumsq;}

  double v = sample("v", mult);
  long long t = (long long)(v * mult);
  s.update(v);

  // expected logical window after the update
  size_t m = fill < W ? fill + 1 : W;
  long long expect[65];
  if (fill < W) {
    for (size_t k = 0; k < fill; ++k) {expect[k] = logical[k];}
    expect[fill] = t;
  } else {
    for (size_t k = 0; k + 1 < W; ++k) {expect[k] = logical[k + 1];}
    expect[W - 1] = t;
  }
  vf_check(s.data_.size() == m, "fill-level");
  const size_t nidx = s.index_;
  bool same = true;
  long long esum = 0;
  for (size_t k = 0; k < m; ++k) {
    long long got = s.data_[m == W ? (nidx + k) % W : k];
    same = same & (got == expect[k]);
    esum += expect[k];
  }
  vf_check(same, "window-holds-last-min(n,W)-samples-in-order");
  vf_check(m < W ? nidx == m : nidx < W, "replacement-index-consistent");
  vf_check(s.sumOfData_ == esum, "sum-matches-window");
  double mean = (double)esum / (mult * m);
  vf_check(s.getAverage() == mean, "average-is-mean-of-window");
  vf_check(s.isAvailable() == (m == W), "available-iff-full");
  if constexpr (VAR) {
    bool sq = true;
    long long esq = 0;
    for (size_t k = 0; k < m; ++k) {
      size_t slot = m == W ? (nidx + k) % W : k;
      sq = sq & (s.squaredData_[slot] == s.data_[slot] * s.data_[slot]);
      esq += expect[k] * expect[k];
    }
    vf_check(sq, "squares-match-samples");
    vf_check(s.sumOfSquaredData_ == esq, "sum-of-squares-matches-window");
    if (m == W) {
      double acc = 0;
      for (size_t k = 0; k < m; ++k) {
        double dlt = (double)expect[k] / mult - mean;
        acc += dlt * dlt;
      }
      vf_check(s.getVariance() == acc / (double)(m - 1), "variance-is-unbiased-sample-variance-of-window");
    }
  }
  // reset() re-establishes the empty valid state
  s.reset();
  vf_check(s.data_.size() == 0 && s.sumOfData_ == 0 && !(W > 0 && s.isAvailable()), "reset-empties");
  vf_check(s.index_ == 0, "reset-rewinds-replacement-index");
  vf_reach("step");
}

extern "C" void c16_avg_step() { step<OnlineAverage, false>(); }
extern "C" void c16_var_step() { step<OnlineVariance, true>(); }

// the squared multiplier must be the square of the multiplier for every advertised precision
extern "C" void c16_var_multiplier()
{
  OnlineVariance s(vf_paramf("precision"), 4);
  double m = (double)s.multiplier_;
  vf_check((double)s.squaredMultiplier_ == m * m, "squared-multiplier-is-square");
  vf_reach("mult");
}

// ------------------------------------------------------------------ ring buffer
using Ring = RingOfEigenVector<Eigen::Vector2d>;

// n appends; clear() before append number c (enumerated); k-th entry == k-th most recent since clear
extern "C" void c16_ring_history()
{
  const size_t cap = (size_t)vf_param("cap");
  const int n = (int)vf_param("n");
  Ring ring(cap);
  int c = (int)vf_i64("clear_before");
  vf_assume((c >= 0) & (c <= n));
  c = (int)vf_enum(c);
  double xs[64], ys[64];
  int cnt = 0;
  for (int k = 0; k < n; ++k) {
    if (k == c) {
      ring.clear();
      cnt = 0;
      vf_check(ring.size() == 0, "size-0-after-clear");
    }
    xs[cnt] = vf_f64(XS[k]);
    ys[cnt] = vf_f64(YS[k]);
    ring.append(Eigen::Vector2d(xs[cnt], ys[cnt]));
    ++cnt;
    size_t m = (size_t)cnt < cap ? (size_t)cnt : cap;
    vf_check(ring.size() == m, "size-is-min(n,cap)");
    bool ok = true;
    for (size_t j = 0; j < m; ++j) {
      const Eigen::Vector2d & e = ring[j];
      ok = ok & (e.x() == xs[cnt - 1 - j]) & (e.y() == ys[cnt - 1 - j]);
    }
    vf_check(ok, "kth-entry-is-kth-most-recent");
  }
  vf_reach("ring");
}
