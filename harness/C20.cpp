// C20 — bounding volumes, intervals, point-set extents
#include "vf.h"
#include "vfnames.h"
#include <cmath>
#include "romea_core_common/containers/boundingbox/AxisAlignedBoundingBox.hpp"
#include "romea_core_common/containers/boundingbox/OrientedBoundingBox.hpp"
#include "romea_core_common/math/Interval.hpp"
#include "romea_core_common/containers/Eigen/EigenContainers.hpp"
#include "romea_core_common/pointset/algorithms/PointSetPreconditioner.hpp"
using namespace romea::core;

static const char * C[3] = {"c0", "c1", "c2"};
static const char * HW[3] = {"h0", "h1", "h2"};
static const char * P[3] = {"p0", "p1", "p2"};
static const char * U[3] = {"u0", "u1", "u2"};
static const char * LO[3] = {"lo0", "lo1", "lo2"};
static const char * UP[3] = {"up0", "up1", "up2"};
static const char * LO2[3] = {"lob0", "lob1", "lob2"};
static const char * UP2[3] = {"upb0", "upb1", "upb2"};
static const char * R9[9] = {"r00", "r10", "r20", "r01", "r11", "r21", "r02", "r12", "r22"};
static const char * PX[64] = {VF_N64("px")};

template<typename S> static S in(const char * n) { return sizeof(S) == 8 ? (S)vf_f64(n) : (S)vf_f32(n); }
template<typename S> static S absv(S x) { return x < 0 ? -x : x; }

// ---------------------------------------------------------------- AABB
template<typename S, size_t D>
static void aabb()
{
  using V = Eigen::Matrix<S, D, 1>;
  V lo, up, p;
  for (size_t d = 0; d < D; ++d) {
    lo[d] = in<S>(LO[d]);
    up[d] = in<S>(UP[d]);
    p[d] = in<S>(P[d]);
    vf_assume(lo[d] <= up[d]);
  }
  Interval<S, D> itv(lo, up);
  AxisAlignedBoundingBox<S, D> box(itv);
  Interval<S, D> back = box.toInterval();
  bool same = true, inside = true;
  for (size_t d = 0; d < D; ++d) {
    same = same & vf_eq(back.lower()[d], lo[d]) & vf_eq(back.upper()[d], up[d]);
  }
  vf_check(same, "aabb-from-interval-reproduces-interval");
  // containment against centre +- half extent as reported
  const V c = box.getCenterPosition();
  const V h = box.getHalfWidthExtents();
  for (size_t d = 0; d < D; ++d) {
    inside = inside & (p[d] >= c[d] - h[d]) & (p[d] <= c[d] + h[d]);
  }
  vf_check(box.isInside(p) == inside, "aabb-inside-iff-within-centre-plus-minus-half-extent");
  vf_check(itv.inside(p) == inside, "interval-inside-is-closed-box");
  vf_reach("aabb");
}
extern "C" void c20_aabb_d2() { aabb<double, 2>(); }
extern "C" void c20_aabb_d3() { aabb<double, 3>(); }
extern "C" void c20_aabb_f2() { aabb<float, 2>(); }
extern "C" void c20_aabb_f3() { aabb<float, 3>(); }

// explicit centre / half extent, zero extents included
template<typename S, size_t D>
static void aabb_ch()
{
  using V = Eigen::Matrix<S, D, 1>;
  V c, h, p;
  bool inside = true;
  for (size_t d = 0; d < D; ++d) {
    c[d] = in<S>(C[d]);
    h[d] = in<S>(HW[d]);
    p[d] = in<S>(P[d]);
    vf_assume(h[d] >= 0);
    inside = inside & (absv<S>(p[d] - c[d]) <= h[d]);
  }
  AxisAlignedBoundingBox<S, D> box(c, h);
  vf_check(box.isInside(p) == inside, "aabb-inside-iff-abs-offset-le-half-extent");
  // corners and face centres are inside (closed box)
  V q = c;
  for (size_t d = 0; d < D; ++d) {q[d] = c[d] + h[d];}
  vf_check(box.isInside(q), "aabb-corner-is-inside");
  vf_reach("aabb_ch");
}
extern "C" void c20_aabb_ch_d2() { aabb_ch<double, 2>(); }
extern "C" void c20_aabb_ch_d3() { aabb_ch<double, 3>(); }
extern "C" void c20_aabb_ch_f3() { aabb_ch<float, 3>(); }

// ---------------------------------------------------------------- intervals
template<typename S, size_t D>
static void interval()
{
  using V = Eigen::Matrix<S, D, 1>;
  V lo, up, lo2, up2;
  for (size_t d = 0; d < D; ++d) {
    lo[d] = in<S>(LO[d]); up[d] = in<S>(UP[d]); lo2[d] = in<S>(LO2[d]); up2[d] = in<S>(UP2[d]);
    vf_assume((lo[d] <= up[d]) & (lo2[d] <= up2[d]));
  }
  Interval<S, D> a(lo, up), b(lo2, up2);
  a.include(b);
  bool hull = true;
  for (size_t d = 0; d < D; ++d) {
    S l = lo[d] < lo2[d] ? lo[d] : lo2[d];
    S u = up[d] > up2[d] ? up[d] : up2[d];
    hull = hull & (a.lower()[d] == l) & (a.upper()[d] == u);
  }
  vf_check(hull, "interval-union-is-componentwise-hull");
  vf_reach("interval");
}
extern "C" void c20_interval_d2() { interval<double, 2>(); }
extern "C" void c20_interval_f3() { interval<float, 3>(); }

extern "C" void c20_interval_1d()
{
  double lo = vf_f64("lo0"), up = vf_f64("up0"), lo2 = vf_f64("lob0"), up2 = vf_f64("upb0"), p = vf_f64("p0");
  vf_assume((lo <= up) & (lo2 <= up2));
  Interval<double, 1> a(lo, up), b(lo2, up2);
  vf_check(a.inside(p) == ((p >= lo) & (p <= up)), "interval1-inside-closed");
  a.include(b);
  vf_check((a.lower() == (lo < lo2 ? lo : lo2)) & (a.upper() == (up > up2 ? up : up2)), "interval1-union-is-hull");
  vf_reach("interval1");
}

// ---------------------------------------------------------------- OBB
template<size_t D>
static Eigen::Matrix<double, D, D> rotation(bool orthonormal)
{
  Eigen::Matrix<double, D, D> R;
  for (size_t j = 0; j < D; ++j) {
    for (size_t i = 0; i < D; ++i) {R(i, j) = vf_f64(R9[3 * j + i]);}
  }
  if (orthonormal) {
    for (size_t i = 0; i < D; ++i) {
      for (size_t j = i; j < D; ++j) {
        double dot = 0;
        for (size_t k = 0; k < D; ++k) {dot += R(k, i) * R(k, j);}
        vf_assume(dot == (i == j ? 1.0 : 0.0));
      }
    }
  }
  return R;
}

// a point given in the box frame (c + R u) is inside iff |u| <= h, for orthonormal R
template<size_t D>
static void obb_inside()
{
  using V = Eigen::Matrix<double, D, 1>;
  V c, h, u;
  bool inside = true;
  for (size_t d = 0; d < D; ++d) {
    c[d] = vf_f64(C[d]); h[d] = vf_f64(HW[d]); u[d] = vf_f64(U[d]);
    vf_assume(h[d] >= 0);
    inside = inside & (absv<double>(u[d]) <= h[d]);
  }
  Eigen::Matrix<double, D, D> R = rotation<D>(true);
  OrientedBoundingBox<double, D> box(c, h, R);
  V p = c + R * u;
  vf_check(box.isInside(p) == inside, "obb-inside-iff-box-frame-coordinates-within-half-extents");
  vf_reach("obb_inside");
}
extern "C" void c20_obb_inside_2() { obb_inside<2>(); }
extern "C" void c20_obb_inside_3() { obb_inside<3>(); }

// AABB of an OBB encloses every point of the OBB and is tight
template<size_t D>
static void obb_aabb()
{
  using V = Eigen::Matrix<double, D, 1>;
  V c, h, u;
  for (size_t d = 0; d < D; ++d) {
    c[d] = vf_f64(C[d]); h[d] = vf_f64(HW[d]); u[d] = vf_f64(U[d]);
    vf_assume(h[d] >= 0);
    vf_assume((u[d] <= h[d]) & (u[d] >= -h[d]));
  }
  Eigen::Matrix<double, D, D> R = rotation<D>(true);     // the property speaks of proper rotations
  OrientedBoundingBox<double, D> box(c, h, R);
  AxisAlignedBoundingBox<double, D> outer = box.toAxisAlignedBoundingBox();
  V p = c + R * u;
  const V oc = outer.getCenterPosition();
  const V oh = outer.getHalfWidthExtents();
  bool enc = true;
  for (size_t d = 0; d < D; ++d) {
    enc = enc & (p[d] - oc[d] <= oh[d]) & (oc[d] - p[d] <= oh[d]);
  }
  vf_check(enc, "aabb-of-obb-contains-every-obb-point");
  // tightness: for each face i the corner with u_j = sign(R_ij) h_j lies on it
  for (size_t i = 0; i < D; ++i) {
    V corner;
    for (size_t j = 0; j < D; ++j) {corner[j] = R(i, j) >= 0 ? h[j] : -h[j];}
    V q = c + R * corner;
    vf_check(vf_eq(q[i] - oc[i], oh[i]), "aabb-of-obb-face-touched-by-a-corner");
  }
  bool same_centre = true;
  for (size_t d = 0; d < D; ++d) {same_centre = same_centre & (oc[d] == c[d]);}
  vf_check(same_centre, "aabb-of-obb-keeps-centre");
  vf_reach("obb_aabb");
}
extern "C" void c20_obb_aabb_2() { obb_aabb<2>(); }
extern "C" void c20_obb_aabb_3() { obb_aabb<3>(); }

// ---------------------------------------------------------------- point-set extents
template<class PT, int CART>
static void extents()
{
  using S = typename PT::Scalar;
  const int N = (int)vf_param("N");
  PointSet<PT> pts;
  S xs[16][3];
  for (int n = 0; n < N; ++n) {
    for (int d = 0; d < CART; ++d) {xs[n][d] = in<S>(PX[n * 3 + d]);}
    if constexpr (CART == 2) {pts.push_back(PT(xs[n][0], xs[n][1]));} else {pts.push_back(PT(xs[n][0], xs[n][1], xs[n][2]));}
  }
  // stated range: coordinates within +-1e6; for N > 1 the set is not a single repeated point
  S tside = 0;
  for (int d = 0; d < CART; ++d) {
    S lo = xs[0][d], hi = xs[0][d];
    for (int n = 0; n < N; ++n) {
      vf_assume((xs[n][d] <= S(1e6)) & (xs[n][d] >= S(-1e6)));
      lo = xs[n][d] < lo ? xs[n][d] : lo;
      hi = xs[n][d] > hi ? xs[n][d] : hi;
    }
    tside = (hi - lo) > tside ? (hi - lo) : tside;
  }
  if (N > 1) {vf_assume(tside > 0);}
  PointSetPreconditioner<PT> pre(pts);
  const PT mn = pre.getPointSetMin(), mx = pre.getPointSetMax(), mean = pre.getPointSetMean();
  S side = 0;
  for (int d = 0; d < CART; ++d) {
    // true extrema: an element of the set that bounds all others
    bool lower_ok = true, upper_ok = true, min_att = false, max_att = false;
    S sum = 0;
    for (int n = 0; n < N; ++n) {
      lower_ok = lower_ok & (mn[d] <= xs[n][d]);
      upper_ok = upper_ok & (mx[d] >= xs[n][d]);
      min_att = min_att | (mn[d] == xs[n][d]);
      max_att = max_att | (mx[d] == xs[n][d]);
      sum += xs[n][d];
    }
    vf_check(lower_ok & min_att, "reported-min-is-true-componentwise-minimum");
    vf_check(upper_ok & max_att, "reported-max-is-true-componentwise-maximum");
    vf_check(vf_eq(mean[d], sum / (S)N), "reported-mean-is-centroid");
    S w = mx[d] - mn[d];
    side = w > side ? w : side;
  }
  if (N > 1) {
    vf_check(vf_eq(pre.getScale(), 1 / tside), "scale-is-reciprocal-of-largest-side");
  }
  if constexpr (PT::RowsAtCompileTime == CART) {
    // free function of EigenContainers (min/max there do not instantiate for Matrix point types)
    PT fmean = romea::core::mean(pts);
    bool ok = true;
    for (int d = 0; d < CART; ++d) {ok = ok & vf_eq(fmean[d], mean[d]);}
    vf_check(ok, "container-mean-agrees-with-centroid");
  }
  vf_reach("extents");
}
extern "C" void c20_extents_v2d() { extents<Eigen::Vector2d, 2>(); }
extern "C" void c20_extents_v3d() { extents<Eigen::Vector3d, 3>(); }
extern "C" void c20_extents_v2f() { extents<Eigen::Vector2f, 2>(); }
extern "C" void c20_extents_v3f() { extents<Eigen::Vector3f, 3>(); }
extern "C" void c20_extents_h2d() { extents<HomogeneousCoordinates2d, 2>(); }
extern "C" void c20_extents_h3d() { extents<HomogeneousCoordinates3d, 3>(); }
extern "C" void c20_extents_h2f() { extents<HomogeneousCoordinates2f, 2>(); }
extern "C" void c20_extents_h3f() { extents<HomogeneousCoordinates3f, 3>(); }
