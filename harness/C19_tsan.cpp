// Native two-thread replay for C19 lock-set findings: run the two offending methods concurrently under
// ThreadSanitizer.  usage: c19_tsan <scenario> ; exit code 66 when TSan reported a data race.
#include <thread>
#include <atomic>
#include <cstring>
#include <cstdio>
#include <optional>
#include <vector>
#include "romea_core_common/concurrency/SharedVariable.hpp"
#include "romea_core_common/concurrency/SharedOptionalVariable.hpp"
#include "romea_core_common/monitoring/OnlineAverage.hpp"
#include "romea_core_common/monitoring/OnlineVariance.hpp"
#include "romea_core_common/monitoring/RateMonitoring.hpp"
#include "romea_core_common/diagnostic/CheckupEqualTo.hpp"
#include "romea_core_common/diagnostic/CheckupGreaterThan.hpp"
#include "romea_core_common/diagnostic/CheckupLowerThan.hpp"
#include "romea_core_common/diagnostic/CheckupRate.hpp"
#include "romea_core_common/diagnostic/CheckupReliability.hpp"
using namespace romea::core;

static const int N = 20000;
struct Pair { long a; double b; };

template<class W, class R>
static void race(W writer, R reader)
{
  std::atomic<bool> go{false};
  std::thread tw([&] {while (!go) {} for (int i = 0; i < N; ++i) {writer(i);}});
  std::thread tr([&] {while (!go) {} for (int i = 0; i < N; ++i) {reader(i);}});
  go = true;
  tw.join();
  tr.join();
}

template<class CK>
static void checkup()
{
  CK c("quantity", 1.0, 0.1, Diagnostic());
  volatile size_t sink = 0;
  race([&](int i) {if (i % 7 == 0) {c.timeout();} else {c.evaluate(0.9 + 0.001 * (i % 300));}},
    [&](int) {DiagnosticReport copy = c.getReport(); sink += copy.diagnostics.front().message.size() + copy.info.begin()->second.size();});
}

int main(int argc, char ** argv)
{
  if (argc < 2) {return 2;}
  const char * s = argv[1];
  volatile double sink = 0;
  if (!std::strcmp(s, "SharedVariable")) {
    SharedVariable<Pair> v(Pair{0, 0});
    race([&](int i) {v.store(Pair{i, i * 0.5});}, [&](int) {Pair p = v.load(); if (p.b != p.a * 0.5) {std::printf("TORN\n");}});
  } else if (!std::strcmp(s, "SharedVariableSmall")) {
    SharedVariable<double> v(0.0);
    race([&](int i) {v.store(i * 0.5);}, [&](int) {sink += v.load();});
  } else if (!std::strcmp(s, "SharedOptionalVariable")) {
    SharedOptionalVariable<long> v;
    race([&](int i) {v.store(i);}, [&](int) {auto c = v.consume(); if (c) {sink += *c;}});
  } else if (!std::strcmp(s, "SharedOptionalVariable.atomic")) {
    // exactly-once hand-over: one producer stores unique tickets, three consumers poll; no ticket may be taken twice
    SharedOptionalVariable<long> v;
    const long M = 300000;
    std::vector<std::vector<long>> got(3);
    std::atomic<bool> go{false}, done{false};
    std::thread tp([&] {while (!go) {} for (long i = 1; i <= M; ++i) {v.store(i);} done = true;});
    std::vector<std::thread> tc;
    for (int c = 0; c < 3; ++c) {
      tc.emplace_back([&, c] {while (!go) {} while (!done) {auto x = v.consume(); if (x) {got[c].push_back(*x);}}});
    }
    go = true;
    tp.join();
    for (auto & t : tc) {t.join();}
    std::vector<char> seen(M + 1, 0);
    long dup = 0;
    for (auto & g : got) {for (long x : g) {if (x < 1 || x > M || seen[x]++) {++dup;}}}
    if (dup) {std::printf("ATOMICITY-VIOLATION %ld tickets handed out more than once\n", dup);}
  } else if (!std::strcmp(s, "OnlineAverage")) {
    OnlineAverage a(0.1, 8);
    race([&](int i) {if (i % 50 == 0) {a.reset();} else {a.update(i * 0.1);}}, [&](int) {sink += a.getAverage(); sink += a.isAvailable();});
  } else if (!std::strcmp(s, "OnlineVariance")) {
    OnlineVariance a(0.1, 8);
    race([&](int i) {if (i % 50 == 0) {a.reset();} else {a.update(i * 0.1);}}, [&](int) {sink += a.getVariance(); sink += a.isAvailable();});
  } else if (!std::strcmp(s, "RateMonitoring")) {
    RateMonitoring rm(20.0);
    race([&](int i) {rm.update(durationFromNanoSecond(1000000LL * (i + 1)));},
      [&](int i) {sink += rm.getRate(); sink += rm.timeout(durationFromNanoSecond(1000000LL * (i + 1)));});
  } else if (!std::strcmp(s, "CheckupEqualTo")) {
    checkup<CheckupEqualTo<double>>();
  } else if (!std::strcmp(s, "CheckupGreaterThan")) {
    checkup<CheckupGreaterThan<double>>();
  } else if (!std::strcmp(s, "CheckupLowerThan")) {
    checkup<CheckupLowerThan<double>>();
  } else if (!std::strcmp(s, "CheckupReliability")) {
    CheckupReliability c("reliability", 0.3, 0.7);
    volatile size_t k = 0;
    race([&](int i) {c.evaluate((i % 100) * 0.01);}, [&](int) {DiagnosticReport copy = c.getReport(); k += copy.diagnostics.front().message.size();});
  } else if (!std::strcmp(s, "CheckupRate")) {
    CheckupRate<CheckupEqualTo<double>> c("sensor", 20.0, 0.5);
    volatile size_t k = 0;
    race([&](int i) {c.evaluate(durationFromNanoSecond(1000000LL * (i + 1)));},
      [&](int i) {DiagnosticReport copy = c.getReport(); k += copy.diagnostics.front().message.size(); c.heartBeatCallback(durationFromNanoSecond(1000000LL * (i + 1)));});
  } else {
    return 2;
  }
  std::printf("DONE %s\n", s);
  return 0;
}
