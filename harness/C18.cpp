// C18 — check-ups and status algebra
#include "vf.h"
#include "vfnames.h"
#include <cmath>
#include <string>
#include "romea_core_common/diagnostic/CheckupEqualTo.hpp"
#include "romea_core_common/diagnostic/CheckupGreaterThan.hpp"
#include "romea_core_common/diagnostic/CheckupLowerThan.hpp"
#include "romea_core_common/diagnostic/CheckupReliability.hpp"
using namespace romea::core;

static const char * VN[8] = {"v0", "v1", "v2", "v3", "v4", "v5", "v6", "v7"};
static const char * SN[16] = {VF_N16("st")};

static double finite(const char * n)
{
  double x = vf_f64(n);
  vf_assume((x <= 1e300) & (x >= -1e300));   // finite, away from overflow of target +- epsilon
  return x;
}

// report consistency: returned status == stored status, message == name + suffix of that verdict, value token
template<class R>
static void consistent(const R & rep, DiagnosticStatus returned, double value, const std::string & name,
  const char * suffix_ok, const char * suffix_low, const char * suffix_high, int verdict)
{
  const Diagnostic & d = rep.diagnostics.front();
  vf_check(d.status == returned, "returned-status-equals-stored-status");
  const bool m_ok = d.message == name + suffix_ok, m_low = d.message == name + suffix_low, m_high = d.message == name + suffix_high;
  vf_check(((verdict == 0) & m_ok) | ((verdict < 0) & m_low) | ((verdict > 0) & m_high), "message-names-the-quantity-with-the-matching-verdict");
  vf_check(rep.info.size() == 1 && rep.info.begin()->first == name, "info-entry-is-the-quantity");
  vf_check(rep.info.begin()->second == toStringInfoValue(value), "info-value-is-the-printed-evaluated-value");
  vf_check(rep.diagnostics.size() == 1, "one-diagnostic");
}

// equal-to: OK iff |value - target| <= epsilon   (mode 0: over the reals; mode 1: IEEE thresholds fl(target -+ eps))
extern "C" void c18_equal_to()
{
  const double target = finite("target"), eps = finite("eps");
  vf_assume(eps >= 0);
  const std::string name("quantity");
  CheckupEqualTo<double> c(name, target, eps, Diagnostic());
  const int k = (int)vf_param("evaluations");
  for (int i = 0; i < k; ++i) {
    const double v = finite(VN[i]);
    DiagnosticStatus s = c.evaluate(v);
    bool ok;
    int verdict;
    if (vf_param("ieee")) {
      const double lo = target - eps, hi = target + eps;
      ok = (v >= lo) & (v <= hi);
      verdict = v < lo ? -1 : (v > hi ? 1 : 0);
    } else {
      ok = std::fabs(v - target) <= eps;
      verdict = ok ? 0 : (v < target ? -1 : 1);
    }
    vf_check((s == DiagnosticStatus::OK) == ok, "equal-to-OK-iff-within-epsilon-of-target");
    vf_check((s == DiagnosticStatus::OK) | (s == DiagnosticStatus::ERROR), "equal-to-status-is-OK-or-ERROR");
    consistent(c.getReport(), s, v, name, " is OK.", " is too low.", " is too high.", verdict);
    if (vf_param("timeouts") && (i % 2) == 0) {
      c.timeout();
      const DiagnosticReport & r = c.getReport();
      vf_check(r.diagnostics.front().status == DiagnosticStatus::STALE, "timeout-sets-STALE");
      vf_check(r.diagnostics.front().message == name + " timeout.", "timeout-message");
      vf_check(r.info.begin()->second.empty(), "timeout-clears-the-value");
    }
  }
  vf_reach("equal_to");
}

extern "C" void c18_greater_than()
{
  const double minimum = finite("target"), eps = finite("eps");
  vf_assume(eps >= 0);
  const std::string name("quantity");
  CheckupGreaterThan<double> c(name, minimum, eps, Diagnostic());
  const double v = finite("v0");
  DiagnosticStatus s = c.evaluate(v);
  bool ok = vf_param("ieee") ? (v > minimum - eps) : (v - minimum > -eps);
  vf_check((s == DiagnosticStatus::OK) == ok, "greater-than-OK-iff-value-above-minimum-minus-epsilon");
  vf_check((s == DiagnosticStatus::OK) | (s == DiagnosticStatus::ERROR), "status-is-OK-or-ERROR");
  consistent(c.getReport(), s, v, name, " is OK.", " is too low.", " is too low.", ok ? 0 : -1);
  vf_reach("greater_than");
}

extern "C" void c18_lower_than()
{
  const double maximum = finite("target"), eps = finite("eps");
  vf_assume(eps >= 0);
  const std::string name("quantity");
  CheckupLowerThan<double> c(name, maximum, eps, Diagnostic());
  const double v = finite("v0");
  DiagnosticStatus s = c.evaluate(v);
  bool ok = vf_param("ieee") ? (v < maximum + eps) : (v - maximum < eps);
  vf_check((s == DiagnosticStatus::OK) == ok, "lower-than-OK-iff-value-below-maximum-plus-epsilon");
  consistent(c.getReport(), s, v, name, " is OK.", " is too high.", " is too high.", ok ? 0 : 1);
  vf_reach("lower_than");
}

extern "C" void c18_reliability()
{
  const double lo = finite("low"), hi = finite("high");
  vf_assume(lo <= hi);
  const std::string name("reliability");
  CheckupReliability c(name, lo, hi);
  const double v = finite("v0");
  DiagnosticStatus s = c.evaluate(v);
  DiagnosticStatus expect = v < lo ? DiagnosticStatus::ERROR : (v < hi ? DiagnosticStatus::WARN : DiagnosticStatus::OK);
  vf_check(s == expect, "reliability-ERROR-below-low-WARN-below-high-OK-otherwise");
  DiagnosticReport r = c.getReport();
  vf_check(r.diagnostics.front().status == s, "returned-status-equals-stored-status");
  const std::string & msg = r.diagnostics.front().message;
  const bool m_low = msg == name + " is too low.", m_unc = msg == name + " is uncertain.", m_high = msg == name + " is high.";
  vf_check(((expect == DiagnosticStatus::ERROR) & m_low) | ((expect == DiagnosticStatus::WARN) & m_unc) | ((expect == DiagnosticStatus::OK) & m_high),
    "message-names-the-quantity-with-the-matching-verdict");
  vf_check(r.info.begin()->second == toStringInfoValue(v), "info-value-is-the-printed-evaluated-value");
  vf_reach("reliability");
}

// severity algebra
static DiagnosticStatus st(const char * n)
{
  int64_t s = vf_i64(n);
  vf_assume((s >= 0) & (s <= 3));
  return (DiagnosticStatus)(int)s;
}

extern "C" void c18_worse()
{
  DiagnosticStatus a = st("a"), b = st("b"), c = st("c");
  DiagnosticStatus ab = worse(a, b);
  vf_check((int)ab == ((int)a > (int)b ? (int)a : (int)b), "worse-is-the-maximum-under-OK<WARN<ERROR<STALE");
  vf_check(ab == worse(b, a), "worse-commutative");
  vf_check(worse(worse(a, b), c) == worse(a, worse(b, c)), "worse-associative");
  vf_check(worse(a, a) == a, "worse-idempotent");
  vf_reach("worse");
}

extern "C" void c18_lists()
{
  const int n = (int)vf_param("n");
  std::list<Diagnostic> l;
  int mx = 0;
  bool all = true;
  for (int i = 0; i < n; ++i) {
    DiagnosticStatus s = st(SN[i]);
    l.push_back(Diagnostic(s, "m"));
    mx = (int)s > mx ? (int)s : mx;
    all = all & (s == DiagnosticStatus::OK);
  }
  vf_check((int)worseStatus(l) == mx, "worst-status-of-a-list-is-its-maximum");
  vf_check(allOK(l) == all, "allOK-iff-every-entry-is-OK");
  vf_reach("lists");
}

// report aggregation: diagnostics concatenated in order, info merged (existing keys kept)
extern "C" void c18_aggregate()
{
  const int n1 = (int)vf_param("n1"), n2 = (int)vf_param("n2");
  DiagnosticReport r1, r2;
  static const char * MSG[8] = {"m0", "m1", "m2", "m3", "m4", "m5", "m6", "m7"};
  DiagnosticStatus ss[8];
  for (int i = 0; i < n1; ++i) {ss[i] = st(SN[i]); r1.diagnostics.push_back(Diagnostic(ss[i], MSG[i]));}
  for (int i = 0; i < n2; ++i) {ss[n1 + i] = st(SN[n1 + i]); r2.diagnostics.push_back(Diagnostic(ss[n1 + i], MSG[n1 + i]));}
  r1.info["alpha"] = "1";
  r1.info["shared"] = "first";
  r2.info["shared"] = "second";
  r2.info["beta"] = "2";
  r1 += r2;
  vf_check((int)r1.diagnostics.size() == n1 + n2, "aggregate-has-all-diagnostics");
  int k = 0;
  bool order = true;
  for (const auto & d : r1.diagnostics) {
    order = order & (d.status == ss[k]) & (d.message == MSG[k]);
    ++k;
  }
  vf_check(order, "aggregate-keeps-diagnostics-in-order");
  vf_check(r1.info.size() == 3 && r1.info["alpha"] == "1" && r1.info["beta"] == "2" && r1.info["shared"] == "first", "aggregate-merges-info");
  vf_reach("aggregate");
}
