// Native replay runtime: the harness compiled with g++ against the real sources,
// inputs read from an assignment file, checks evaluated on IEEE doubles.
#include "vf.h"
#include <cstdio>
#include <cstdlib>
#include <cstring>
#include <cmath>
#include <map>
#include <string>
#include <dlfcn.h>

static std::map<std::string, std::string> g_val;

static const std::string & lookup(const char * name)
{
  auto it = g_val.find(name);
  if (it == g_val.end()) {
    std::printf("MISSING %s\n", name);
    std::fflush(stdout);
    std::exit(4);
  }
  return it->second;
}

extern "C" {
double vf_f64(const char * n) { return std::strtod(lookup(n).c_str(), nullptr); }
float vf_f32(const char * n) { return (float)std::strtod(lookup(n).c_str(), nullptr); }
int64_t vf_i64(const char * n) { return (int64_t)std::strtoull(lookup(n).c_str(), nullptr, 0); }
int32_t vf_i32(const char * n) { return (int32_t)std::strtoull(lookup(n).c_str(), nullptr, 0); }
bool vf_bool(const char * n) { return std::strtoull(lookup(n).c_str(), nullptr, 0) != 0; }
int64_t vf_param(const char * n) { return (int64_t)std::strtoll(lookup(n).c_str(), nullptr, 0); }
double vf_paramf(const char * n) { return std::strtod(lookup(n).c_str(), nullptr); }
double vf_angle(const char * n, double, double) { return vf_f64(n); }
double vf_pi() { return M_PI; }
int64_t vf_enum(int64_t v) { return v; }
bool vf_symbolic() { return false; }
void vf_watch(const void *, int64_t, const void *, const char *) {}
void vf_thread(int64_t, const char *) {}
void vf_watch_end() {}
double vf_havoc(int64_t) { return std::nan(""); }
void vf_havoc_is(int64_t, double) {}
bool vf_near(double a, double b, double tol)
{
  double m = std::fmax(1.0, std::fmax(std::fabs(a), std::fabs(b)));
  return std::fabs(a - b) <= tol * m;
}
static double g_tol = 1e-9;
void vf_tol(double t) { g_tol = t; }
bool vf_angle_eq(double a, double b) { return std::fabs(a - b) <= g_tol; }
bool vf_angle_congruent(double a, double b) { return std::fabs(std::remainder(a - b, 2 * M_PI)) <= g_tol; }
bool vf_eq(double a, double b)
{
  double m = std::fmax(1.0, std::fmax(std::fabs(a), std::fabs(b)));
  return std::fabs(a - b) <= g_tol * m;
}
void vf_assume(bool c)
{
  if (!c) {
    std::printf("ASSUME-FAIL\n");
    std::fflush(stdout);
    std::exit(3);
  }
}
void vf_check(bool c, const char * id) { std::printf("CHECK %s %d\n", id, c ? 1 : 0); std::fflush(stdout); }
void vf_lemma(bool c, const char * id) { vf_check(c, id); }
double vf_d(double, const char *) { return std::nan(""); }
void vf_cut(double *, int64_t, const char *) {}
void vf_cutf(float *, int64_t, const char *) {}
void vf_observe_f64(const char * n, double v) { std::printf("OBS %s %a\n", n, v); }
void vf_observe_i64(const char * n, int64_t v) { std::printf("OBS %s %lld\n", n, (long long)v); }
void vf_reach(const char * id) { std::printf("REACH %s\n", id); std::fflush(stdout); }
}

int main(int argc, char ** argv)
{
  if (argc < 3) {
    std::fprintf(stderr, "usage: %s <entry> <assignment-file>\n", argv[0]);
    return 2;
  }
  FILE * f = std::fopen(argv[2], "r");
  if (!f) {return 2;}
  char name[256], val[256];
  while (std::fscanf(f, "%255s %255s", name, val) == 2) {g_val[name] = val;}
  std::fclose(f);
  void * sym = dlsym(RTLD_DEFAULT, argv[1]);
  if (!sym) {
    std::printf("NOENTRY %s\n", argv[1]);
    return 2;
  }
  ((void (*)())sym)();
  std::printf("END\n");
  return 0;
}
