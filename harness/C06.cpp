// C06 — RANSAC consensus bookkeeping (one countInliers step from an arbitrary valid state), adaptive iteration bound,
// estimateModel protocol.  The end-to-end ICP accuracy clause is outside what can be encoded (see DESIGN.md).
#include "vf.h"
#include "vfnames.h"
#include <cmath>
#include <limits>
#include <algorithm>
#include "romea_core_common/transform/estimation/RansacRigidTransformationModel.hpp"
#include "romea_core_common/regression/ransac/Ransac.hpp"
#include "romea_core_common/regression/ransac/RansacIterations.hpp"
using namespace romea::core;

static const char * SX[16] = {VF_N16("sx")};
static const char * SY[16] = {VF_N16("sy")};
static const char * TX[16] = {VF_N16("tx")};
static const char * TY[16] = {VF_N16("ty")};
static const char * CD[16] = {VF_N16("cd")};
static const char * BD[16] = {VF_N16("bd")};
static const char * MT[6] = {"m00", "m01", "m02", "m10", "m11", "m12"};

static double bounded(const char * n, double lim)
{
  double v = vf_f64(n);
  vf_assume((v >= -lim) & (v <= lim));
  return v;
}

// one countInliers call from an arbitrary valid bookkeeping state, N correspondences with symbolic points, symbolic model
template<class P>
static void count_inliers()
{
  using M = RansacRigidTransformationModel<P>;
  using S = typename P::Scalar;
  const size_t N = (size_t)vf_param("n");
  const size_t dup = (size_t)vf_param("dup");      // the last `dup` correspondences share the target of correspondence 0
  const size_t B = (size_t)vf_param("best");       // size of the consensus kept so far
  PointSet<P> src(N), tgt(N);
  for (size_t i = 0; i < N; ++i) {
    src[i] = P::Zero(); tgt[i] = P::Zero();
    src[i][0] = (S)bounded(SX[i], 50); src[i][1] = (S)bounded(SY[i], 50);
    tgt[i][0] = (S)bounded(TX[i], 50); tgt[i][1] = (S)bounded(TY[i], 50);
    if (P::RowsAtCompileTime == 3) { src[i][2] = 1; tgt[i][2] = 1; }
  }
  std::vector<Correspondence> cs;
  for (size_t i = 0; i < N; ++i) {
    double d = vf_f64(CD[i]);
    vf_assume((d >= 0) & (d <= 1e4));
    cs.emplace_back(i, i + dup < N ? i : 0, d);
  }
  const double sigma = vf_f64("sigma");
  vf_assume((sigma >= 1e-3) & (sigma <= 10));
  M m;
  m.sourcePoints_ = &src;
  m.targetPoints_ = &tgt;
  m.loadCorrespondences(&cs, N);
  // symbolic model (any affine map in homogeneous form; rigid motions are a subset)
  m.transformation_.setIdentity();
  for (int r = 0; r < 2; ++r) {
    for (int c = 0; c < 3; ++c) {
      m.transformation_(r, c) = (S)bounded(MT[r * 3 + c], c == 2 ? 50 : 2);
    }
  }
  // arbitrary valid previous consensus: B entries with errors below the 3-sigma gate, its RMSE below sigma
  double prevRmse = vf_f64("prevRmse");
  if (B > 0) {
    vf_assume((prevRmse >= 0) & (prevRmse < sigma));
    for (size_t i = 0; i < B; ++i) {
      double d = vf_f64(BD[i]);
      vf_assume((d >= 0) & (d < 9 * sigma * sigma));
      m.bestInlierCorrespondences_.emplace_back(i, i, d);
    }
    m.bestRootMeanSquareError_ = prevRmse;
  }
  const size_t ret = m.countInliers(sigma);
  const size_t nb = m.bestInlierCorrespondences_.size();
  vf_check(ret == nb, "returned-count-is-the-size-of-the-kept-consensus");
  vf_check(nb >= B, "a-smaller-consensus-never-replaces-a-larger-one");
  vf_check((nb == 0) | (m.getRootMeanSquareError() < sigma), "reported-consensus-error-is-below-the-noise-level");
  vf_check((nb == 0) | (nb == B) | (nb >= m.getMinimalNumberOfInliers()), "a-new-consensus-has-the-minimal-number-of-inliers");
  vf_check((nb != B) | (B == 0) | (m.getRootMeanSquareError() <= prevRmse), "equal-size-consensus-only-replaces-with-smaller-error");
  bool gate = true, honest = true;
  const bool replaced = (nb != B) | ((B > 0) & (m.getRootMeanSquareError() != prevRmse));
  for (size_t i = 0; i < nb; ++i) {
    const Correspondence & c = m.bestInlierCorrespondences_[i];
    gate &= c.squareDistanceBetweenPoints < 9 * sigma * sigma;
    if (replaced) {
      // recompute the residual of the stored pair under the model: gross outliers (beyond 3 sigma) are not in the consensus
      P proj;
      projection(m.transformation_, src[c.sourcePointIndex], proj);
      const double ex = (double)(tgt[c.targetPointIndex][0] - proj[0]), ey = (double)(tgt[c.targetPointIndex][1] - proj[1]);
      honest &= vf_near(c.squareDistanceBetweenPoints, ex * ex + ey * ey, 1e-6 * (1 + ex * ex + ey * ey));
    }
  }
  vf_check(gate, "every-consensus-member-is-within-3-sigma");
  vf_check(honest, "stored-residual-is-the-residual-under-the-model");
  vf_reach("count_inliers");
}

extern "C" void c06_count_inliers_d2() { count_inliers<Eigen::Vector2d>(); }
extern "C" void c06_count_inliers_h2() { count_inliers<HomogeneousCoordinates2d>(); }

// adaptive iteration bound
extern "C" void c06_iterations()
{
  const size_t n = (size_t)vf_i64("npoints");
  vf_assume((n >= 6) & (n <= 400));
  const size_t draw = (size_t)vf_param("draw");
  RansacIterations it(n, 0.99f, 1000);
  vf_check(it.get() == 1000.0, "starts-at-the-maximal-number-of-iterations");
  const size_t k1 = (size_t)vf_i64("inliers1");
  vf_assume((k1 > draw) & (k1 <= n));
  it.update(k1, draw);
  const double a = it.get();
  vf_check((a >= 0) & (a <= 1000), "bound-stays-in-0-1000");
  // the bound is the truncation of log(1-p)/log(1-w^draw): with that many draws an all-inlier sample has been seen with
  // probability p, up to the truncation (one more draw suffices)
  const double w = (double)k1 * (1.0 / (double)n);
  double q = 1.0 - std::pow(w, (double)draw);
  const double EPS = std::numeric_limits<double>::epsilon();
  q = std::max(EPS, q);              // same clamps as the code, so that log(q) is the same engine atom
  q = std::min(1.0 - EPS, q);
  const double need = std::log(1.0 - 0.99f) / std::log(q);
  vf_check((a >= 1000) | ((a <= need) & (a + 1 > need)), "bound-is-the-truncated-log-ratio");
  const size_t k2 = (size_t)vf_i64("inliers2");
  vf_assume((k2 > draw) & (k2 <= n));
  it.update(k2, draw);
  vf_check(it.get() <= a, "bound-never-increases");
  vf_reach("iterations");
}

// estimateModel protocol against a stub model with arbitrary draw / count results
static const char * OKN[16] = {VF_N16("ok")};
static const char * CNT[16] = {VF_N16("cnt")};
struct StubModel : RansacModel
{
  size_t n, draws = 0, refines = 0, best = 0, limit;
  int lastop = 0;          // 1: a sample model was drawn last, 2: the consensus was refitted last
  bool draw(const double &) override
  {
    const size_t k = draws++;
    lastop = 1;
    return k >= limit ? true : vf_bool(OKN[k]);
  }
  size_t countInliers(const double &) override
  {
    size_t v;
    if (draws > limit) {
      v = n;                                  // from then on: full consensus (the loop must stop)
    } else {
      int64_t c = vf_i64(CNT[draws - 1]);
      vf_assume((c >= (int64_t)best) & (c <= (int64_t)n));
      v = (size_t)vf_enum(c);
    }
    best = v > best ? v : best;
    return best;
  }
  void refine() override { ++refines; lastop = 2; }
  size_t getNumberOfPoints() const override { return n; }
  size_t getNumberOfPointsToDrawModel() const override { return 3; }
  size_t getMinimalNumberOfInliers() const override { return 6; }
  double getRootMeanSquareError() const override { return 0; }
};

extern "C" void c06_estimate_protocol()
{
  StubModel m;
  m.n = (size_t)vf_param("n");
  m.limit = (size_t)vf_param("limit");
  Ransac r(&m, 0.1);
  const bool ok = r.estimateModel();
  if (m.n < 6) {
    vf_check(!ok & (m.draws == 0), "too-few-points-fails-without-drawing");
  } else {
    vf_check(ok == (m.best > 3), "success-iff-some-consensus-exceeds-the-sample-size");
    // draw() leaves a minimal-sample model in the same slot refine() fills: on success the refit must be the last thing done
    vf_check(!ok | (m.lastop == 2), "on-success-the-returned-model-is-the-refit-on-the-consensus-not-a-later-sample");
    vf_check(m.draws <= 1000, "at-most-1000-draws");
  }
  vf_reach("estimate_protocol");
}
