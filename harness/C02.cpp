// C02 — ENU frame: rigid, correctly oriented, mutually inverse conversions, anchoring history
#include "vf.h"
#include <cmath>
#include "romea_core_common/geodesy/ENUConverter.hpp"
using namespace romea::core;

static const double DEG = M_PI / 180.0;

struct Anchor { double lat, lon, h; };
static Anchor anchor(const char * nlat, const char * nlon, const char * nh)
{
  Anchor a;
  a.lat = vf_angle(nlat, -85 * DEG, 85 * DEG);
  a.lon = vf_angle(nlon, -M_PI, M_PI);
  a.h = vf_f64(nh);
  vf_assume((a.h >= -500) & (a.h <= 9000));
  return a;
}

// symbolic ellipsoid: semi-major axis within 0.1% of GRS80's, e^2 = 2f - f^2 for flattening f in [0, 1/290]
static void ellipsoid(EarthEllipsoid & el)
{
  double a = vf_f64("a"), e2 = vf_f64("e2");
  vf_assume((a >= 6378137.0 * 0.999) & (a <= 6378137.0 * 1.001) & (e2 >= 0) & (e2 <= 0.00689));
  el.a = a;
  el.e2 = e2;
}

static bool eq3(const Eigen::Vector3d & a, const Eigen::Vector3d & b)
{
  return vf_eq(a[0], b[0]) & vf_eq(a[1], b[1]) & vf_eq(a[2], b[2]);
}

// orthonormality, orientation and axes of the frame
extern "C" void c02_frame()
{
  Anchor a = anchor("lat", "lon", "h");
  ENUConverter enu;
  ellipsoid(enu.ecefConverter_.ellipsoid_);
  enu.setAnchor(makeGeodeticCoordinates(a.lat, a.lon, a.h));
  const Eigen::Matrix3d R = enu.getEnuToEcefTransform().linear();
  const Eigen::Vector3d T = enu.getEnuToEcefTransform().translation();
  for (int i = 0; i < 3; ++i) {
    for (int j = i; j < 3; ++j) {
      vf_check(vf_eq(R.col(i).dot(R.col(j)), i == j ? 1.0 : 0.0), "frame-columns-orthonormal");
    }
  }
  double det = R.col(0).dot(R.col(1).cross(R.col(2)));
  vf_check(vf_eq(det, 1.0), "frame-is-proper-rotation");
  vf_check(vf_eq(R(2, 0), 0.0), "east-axis-is-horizontal");
  // independent oracle for the axes: derivatives of the geodetic->ECEF map and the ellipsoid gradient
  ECEFConverter ecef;
  ecef.ellipsoid_ = enu.ecefConverter_.ellipsoid_;
  Eigen::Vector3d P = ecef.toECEF(makeGeodeticCoordinates(a.lat, a.lon, a.h));
  vf_check(eq3(T, P), "frame-origin-is-anchor-in-ecef");
  Eigen::Vector3d dlon, dlat;
  if (vf_symbolic()) {
    dlon = Eigen::Vector3d(vf_d(P[0], "lon"), vf_d(P[1], "lon"), vf_d(P[2], "lon"));
    dlat = Eigen::Vector3d(vf_d(P[0], "lat"), vf_d(P[1], "lat"), vf_d(P[2], "lat"));
  } else {
    const double s = 1e-6;
    dlon = (ecef.toECEF(makeGeodeticCoordinates(a.lat, a.lon + s, a.h)) - ecef.toECEF(makeGeodeticCoordinates(a.lat, a.lon - s, a.h))) / (2 * s);
    dlat = (ecef.toECEF(makeGeodeticCoordinates(a.lat + s, a.lon, a.h)) - ecef.toECEF(makeGeodeticCoordinates(a.lat - s, a.lon, a.h))) / (2 * s);
  }
  Eigen::Vector3d e = R.col(0), n = R.col(1), u = R.col(2);
  Eigen::Vector3d ce = e.cross(dlon), cn = n.cross(dlat);
  const double nl = dlon.norm(), nn = dlat.norm();
  vf_check(vf_near(ce[0] / nl, 0, 1e-5) & vf_near(ce[1] / nl, 0, 1e-5) & vf_near(ce[2] / nl, 0, 1e-5) & (e.dot(dlon) > 0), "first-axis-points-east");
  vf_check(vf_near(cn[0] / nn, 0, 1e-5) & vf_near(cn[1] / nn, 0, 1e-5) & vf_near(cn[2] / nn, 0, 1e-5) & (n.dot(dlat) > 0), "second-axis-points-north");
  // up axis: parallel to the ellipsoid gradient at the foot point (h = 0), outward
  Eigen::Vector3d P0 = ecef.toECEF(makeGeodeticCoordinates(a.lat, a.lon, 0.0));
  const double A = ecef.ellipsoid_.a, E2 = ecef.ellipsoid_.e2;
  Eigen::Vector3d g(P0[0], P0[1], P0[2] / (1 - E2));     // gradient of x^2/a^2 + y^2/a^2 + z^2/b^2, times a^2/2
  Eigen::Vector3d cu = u.cross(g);
  const double ng = g.norm();
  vf_check(vf_eq(cu[0] / ng, 0) & vf_eq(cu[1] / ng, 0) & vf_eq(cu[2] / ng, 0) & (u.dot(g) > 0), "third-axis-is-outward-ellipsoid-normal");
  (void)A;
  vf_reach("frame");
}

// anchor -> origin ; anchor + dh -> (0, 0, dh)
extern "C" void c02_anchor_points()
{
  Anchor a = anchor("lat", "lon", "h");
  ENUConverter enu;
  ellipsoid(enu.ecefConverter_.ellipsoid_);
  enu.setAnchor(makeGeodeticCoordinates(a.lat, a.lon, a.h));
  Eigen::Vector3d o = enu.toENU(makeGeodeticCoordinates(a.lat, a.lon, a.h));
  vf_check(eq3(o, Eigen::Vector3d::Zero()), "anchor-maps-to-origin");
  double dh = vf_f64("dh");
  vf_assume((dh >= -1e4) & (dh <= 1e4));
  Eigen::Vector3d up = enu.toENU(makeGeodeticCoordinates(a.lat, a.lon, a.h + dh));
  vf_check(eq3(up, Eigen::Vector3d(0, 0, dh)), "point-above-anchor-maps-to-0-0-h");
  vf_reach("anchor_points");
}

// to-geodetic conversion of the point dh above the anchor returns the anchor's latitude / longitude and height h + dh
// (symbolically: the ECEF latitude iteration is abstracted by its last step, started at the true latitude;
//  concretely: the real iteration, 1 mm / 1e-9 rad)
extern "C" void c02_geodetic_inverse()
{
  Anchor a = anchor("lat", "lon", "h");
  ENUConverter enu;
  ellipsoid(enu.ecefConverter_.ellipsoid_);
  enu.setAnchor(makeGeodeticCoordinates(a.lat, a.lon, a.h));
  double dh = vf_f64("dh");
  vf_assume((dh >= -1e4) & (dh <= 1e4));
  if (vf_symbolic()) {
    const double el_a = enu.ecefConverter_.ellipsoid_.a, e2 = enu.ecefConverter_.ellipsoid_.e2;
    Eigen::Vector3d P = enu.toECEF(Eigen::Vector3d(0, 0, dh));
    Eigen::Vector3d Pref = enu.ecefConverter_.toECEF(makeGeodeticCoordinates(a.lat, a.lon, a.h + dh));
    vf_lemma(eq3(P, Pref), "point-above-anchor-in-ecef-is-the-geodetic-point-h-plus-dh");
    const double N = el_a / (sqrt(1.0 - e2 * sin(a.lat) * sin(a.lat)));
    vf_lemma(N + a.h + dh > 6000000.0, "N-plus-h-is-positive");
    vf_lemma(sqrt(Pref[0] * Pref[0] + Pref[1] * Pref[1]) == (N + a.h + dh) * cos(a.lat), "horizontal-radius-is-(N+h)cos(lat)");
  }
  vf_havoc_is(0, a.lat);
  GeodeticCoordinates g = enu.toWGS84(Eigen::Vector3d(0, 0, dh));
  if (vf_symbolic()) {
    vf_lemma(vf_angle_eq(g.latitude, a.lat), "to-geodetic-returns-the-anchor-latitude");
    vf_check(vf_angle_congruent(g.longitude, a.lon), "to-geodetic-returns-the-anchor-longitude");
    vf_check(vf_eq(g.altitude, a.h + dh), "to-geodetic-returns-height-h-plus-dh");
  } else {
    vf_check(vf_near(g.latitude, a.lat, 1e-9), "to-geodetic-returns-the-anchor-latitude");
    vf_check(vf_angle_congruent(g.longitude, a.lon), "to-geodetic-returns-the-anchor-longitude");
    vf_check(std::fabs(g.altitude - (a.h + dh)) <= 1e-3, "to-geodetic-returns-height-h-plus-dh");
  }
  vf_reach("geodetic_inverse");
}

// isometry and mutual inverses, with the frame cut to opaque orthonormal entries
extern "C" void c02_isometry()
{
  Anchor a = anchor("lat", "lon", "h");
  ENUConverter enu(makeGeodeticCoordinates(a.lat, a.lon, a.h));
  vf_cut(enu.enu2ecef_.data(), 16, "T");
  const Eigen::Matrix3d R = enu.getEnuToEcefTransform().linear();
  for (int i = 0; i < 3; ++i) {
    for (int j = i; j < 3; ++j) {
      vf_lemma(vf_eq(R.col(i).dot(R.col(j)), (i == j ? 1.0 : 0.0)), "frame-columns-orthonormal");
    }
  }
  vf_lemma(vf_eq(R.col(0).dot(R.col(1).cross(R.col(2))), 1.0), "frame-is-proper-rotation");
  vf_lemma((enu.enu2ecef_(3, 0) == 0) & (enu.enu2ecef_(3, 1) == 0) & (enu.enu2ecef_(3, 2) == 0) & (enu.enu2ecef_(3, 3) == 1), "last-row-is-0001");
  Eigen::Vector3d p(vf_f64("px"), vf_f64("py"), vf_f64("pz")), q(vf_f64("qx"), vf_f64("qy"), vf_f64("qz"));
  for (int i = 0; i < 3; ++i) {
    double lim = i < 2 ? 1e5 : 1e4;
    vf_assume((p[i] <= lim) & (p[i] >= -lim) & (q[i] <= lim) & (q[i] >= -lim));
  }
  Eigen::Vector3d Pp = enu.toECEF(p), Pq = enu.toECEF(q);
  vf_check(vf_eq((Pp - Pq).squaredNorm(), (p - q).squaredNorm()), "distances-preserved");
  Eigen::Vector3d back = enu.toENU(Pp);
  vf_check(eq3(back, p), "toENU-inverts-toECEF");
  Eigen::Vector3d x(vf_f64("ex"), vf_f64("ey"), vf_f64("ez"));
  Eigen::Vector3d fwd = enu.toECEF(enu.toENU(x));
  vf_check(eq3(fwd, x), "toECEF-inverts-toENU");
  vf_reach("isometry");
}

// history: setAnchor from an arbitrary prior state == fresh construction; reset; self-anchoring
extern "C" void c02_history()
{
  ENUConverter enu;
  static const char * M[16] = {"m0", "m1", "m2", "m3", "m4", "m5", "m6", "m7", "m8", "m9", "m10", "m11", "m12", "m13", "m14", "m15"};
  for (int k = 0; k < 16; ++k) {enu.enu2ecef_.data()[k] = vf_f64(M[k]);}
  enu.isAnchored_ = vf_bool("was_anchored");
  enu.wgs84Anchor_.latitude = vf_f64("old_lat");
  enu.wgs84Anchor_.longitude = vf_f64("old_lon");
  enu.wgs84Anchor_.altitude = vf_f64("old_h");
  Anchor a = anchor("lat", "lon", "h");
  GeodeticCoordinates g = makeGeodeticCoordinates(a.lat, a.lon, a.h);
  ENUConverter fresh(g);
  int op = (int)vf_i64("op");
  vf_assume((op >= 0) & (op <= 2));
  op = (int)vf_enum(op);
  if (op == 0) {
    enu.setAnchor(g);
    bool same = enu.isAnchored();
    for (int k = 0; k < 12; ++k) {
      int r = k % 3, c = k / 3;
      same = same & (enu.enu2ecef_(r, c) == fresh.enu2ecef_(r, c));
    }
    same = same & (enu.getAnchor().latitude == a.lat) & (enu.getAnchor().longitude == a.lon) & (enu.getAnchor().altitude == a.h);
    vf_check(same, "re-anchoring-fully-replaces-the-old-frame");
  } else if (op == 1) {
    enu.reset();
    vf_check(!enu.isAnchored(), "reset-unanchors");
    Eigen::Vector3d first = enu.toENU(g);
    vf_check(enu.isAnchored(), "first-geodetic-conversion-anchors");
    vf_check(eq3(first, Eigen::Vector3d::Zero()), "self-anchoring-point-maps-to-origin");
    bool same = true;
    for (int k = 0; k < 12; ++k) {
      int r = k % 3, c = k / 3;
      same = same & (enu.enu2ecef_(r, c) == fresh.enu2ecef_(r, c));
    }
    vf_check(same, "self-anchored-frame-equals-fresh-frame");
  } else {
    // anchored converter: WGS84 (no altitude) conversion uses the anchor altitude
    enu.setAnchor(g);
    WGS84Coordinates w;
    w.latitude = vf_angle("wlat", -85 * DEG, 85 * DEG);
    w.longitude = vf_angle("wlon", -M_PI, M_PI);
    Eigen::Vector3d viaW = enu.toENU(w);
    Eigen::Vector3d viaG = fresh.toENU(makeGeodeticCoordinates(w.latitude, w.longitude, a.h));
    vf_check(eq3(viaW, viaG), "wgs84-conversion-uses-anchor-altitude");
  }
  vf_reach("history");
}
