// C10 — Euler angles / rotation matrices / quaternions / SmartRotation3D / normalisers / polar, spherical
#include "vf.h"
#include <cmath>
#include <Eigen/Geometry>
#include "romea_core_common/math/EulerAngles.hpp"
#include "romea_core_common/transform/SmartRotation3D.hpp"
#include "romea_core_common/coordinates/PolarCoordinates.hpp"
#include "romea_core_common/coordinates/SphericalCoordinates.hpp"
using namespace romea::core;

struct RPY { double r, p, y; };
static RPY rpy()
{
  RPY a;
  a.r = vf_angle("roll", -2 * M_PI, 2 * M_PI);
  a.p = vf_angle("pitch", -(M_PI / 2 - 1e-3), M_PI / 2 - 1e-3);
  a.y = vf_angle("yaw", -2 * M_PI, 2 * M_PI);
  return a;
}

// Z-Y-X reference matrix written out independently
static Eigen::Matrix3d reference(const RPY & a)
{
  const double cr = std::cos(a.r), sr = std::sin(a.r), cp = std::cos(a.p), sp = std::sin(a.p), cy = std::cos(a.y), sy = std::sin(a.y);
  Eigen::Matrix3d R;
  R << cy * cp, cy * sp * sr - sy * cr, cy * sp * cr + sy * sr,
    sy * cp, sy * sp * sr + cy * cr, sy * sp * cr - cy * sr,
    -sp, cp * sr, cp * cr;
  return R;
}

static bool same(const Eigen::Matrix3d & A, const Eigen::Matrix3d & B)
{
  bool ok = true;
  for (int i = 0; i < 3; ++i) {
    for (int j = 0; j < 3; ++j) {ok = ok & vf_eq(A(i, j), B(i, j));}
  }
  return ok;
}

extern "C" void c10_builders()
{
  RPY a = rpy();
  Eigen::Vector3d ang(a.r, a.p, a.y);
  Eigen::Matrix3d Rref = reference(a);
  Eigen::Matrix3d Rm = eulerAnglesToRotation3D(ang);
  Eigen::Matrix3d Rq = eulerAnglesToQuaternion(ang).toRotationMatrix();
  SmartRotation3D sm(a.r, a.p, a.y);
  for (int i = 0; i < 3; ++i) {
    for (int j = 0; j < 3; ++j) {
      vf_check(vf_eq(Rm(i, j), Rref(i, j)), "angles-to-rotation-is-RzRyRx");
      vf_check(vf_eq(Rq(i, j), Rref(i, j)), "angles-to-quaternion-is-RzRyRx");
      vf_check(vf_eq(sm.R()(i, j), Rref(i, j)), "derivative-helper-matrix-is-RzRyRx");
    }
  }
  Eigen::Quaterniond q = eulerAnglesToQuaternion(ang);
  vf_check(vf_eq(q.squaredNorm(), 1.0), "quaternion-is-unit");
  vf_reach("builders");
}

extern "C" void c10_proper()
{
  RPY a = rpy();
  Eigen::Matrix3d R = eulerAnglesToRotation3D(Eigen::Vector3d(a.r, a.p, a.y));
  for (int i = 0; i < 3; ++i) {
    for (int j = i; j < 3; ++j) {vf_check(vf_eq(R.col(i).dot(R.col(j)), i == j ? 1.0 : 0.0), "rotation-is-orthonormal");}
  }
  vf_check(vf_eq(R.col(0).dot(R.col(1).cross(R.col(2))), 1.0), "rotation-has-determinant-one");
  vf_reach("proper");
}

// angles -> rotation (or quaternion) -> angles: same angles modulo 2 pi
template<typename S>
static void angles_roundtrip()
{
  if (sizeof(S) == 4) vf_tol(2e-5);
  RPY a = rpy();
  Eigen::Matrix3d Rd = reference(a);
  vf_cut(Rd.data(), 9, "R");
  Eigen::Matrix<S, 3, 3> R = Rd.template cast<S>();
  // facts about the reference matrix used by the inverse (proved with the definitions, then assumed)
  vf_lemma(vf_eq(R(2, 0), -std::sin(a.p)), "R20-is-minus-sin-pitch");
  vf_lemma(vf_eq(R(2, 1), std::cos(a.p) * std::sin(a.r)) & vf_eq(R(2, 2), std::cos(a.p) * std::cos(a.r)), "R21-R22");
  vf_lemma(vf_eq(R(1, 0), std::sin(a.y) * std::cos(a.p)) & vf_eq(R(0, 0), std::cos(a.y) * std::cos(a.p)), "R10-R00");
  Eigen::Matrix<S, 3, 1> back = rotation3DToEulerAngles<S>(R);
  vf_check(vf_angle_congruent(back[0], a.r), "roll-recovered-modulo-2pi");
  vf_check(vf_angle_congruent(back[1], a.p), "pitch-recovered-modulo-2pi");
  vf_check(vf_angle_congruent(back[2], a.y), "yaw-recovered-modulo-2pi");
  for (int k = 0; k < 3; ++k) {vf_check((back[k] >= 0) & (back[k] <= 2 * vf_pi()), "angles-normalised-to-[0,2pi]");}
  vf_reach("angles_roundtrip");
}
extern "C" void c10_angles_roundtrip() { angles_roundtrip<double>(); }
extern "C" void c10_angles_roundtrip_f() { angles_roundtrip<float>(); }

// any proper rotation -> angles -> rotation
template<typename S>
static void rotation_roundtrip()
{
  if (sizeof(S) == 4) vf_tol(2e-5);
  static const char * RN[9] = {"r00", "r10", "r20", "r01", "r11", "r21", "r02", "r12", "r22"};
  Eigen::Matrix3d R;
  for (int k = 0; k < 9; ++k) {R.data()[k] = vf_f64(RN[k]);}
  for (int i = 0; i < 3; ++i) {
    for (int j = i; j < 3; ++j) {vf_assume(R.col(i).dot(R.col(j)) == (i == j ? 1.0 : 0.0));}
  }
  // proper rotation: third column is the cross product of the first two
  Eigen::Vector3d c2 = R.col(0).cross(R.col(1));
  vf_assume((R(0, 2) == c2[0]) & (R(1, 2) == c2[1]) & (R(2, 2) == c2[2]));
  vf_assume((R(2, 0) <= 1 - 1e-6) & (R(2, 0) >= -(1 - 1e-6)));
  Eigen::Matrix<S, 3, 3> Rs = R.template cast<S>();
  Eigen::Matrix<S, 3, 1> angs = rotation3DToEulerAngles<S>(Rs);
  Eigen::Vector3d ang = angs.template cast<double>();
  const double cp = std::cos(ang[1]), sp = std::sin(ang[1]);
  vf_lemma(vf_eq(sp, -R(2, 0)), "sin-pitch-is-minus-R20");
  vf_lemma(cp > 0, "cos-pitch-positive");
  vf_lemma(vf_eq(cp * cp, R(2, 1) * R(2, 1) + R(2, 2) * R(2, 2)) & vf_eq(cp * cp, R(0, 0) * R(0, 0) + R(1, 0) * R(1, 0)), "cos-pitch-squared");
  vf_lemma(vf_eq(std::sin(ang[0]) * cp, R(2, 1)) & vf_eq(std::cos(ang[0]) * cp, R(2, 2)), "roll-pair");
  vf_lemma(vf_eq(std::sin(ang[2]) * cp, R(1, 0)) & vf_eq(std::cos(ang[2]) * cp, R(0, 0)), "yaw-pair");
  RPY a{ang[0], ang[1], ang[2]};
  Eigen::Matrix3d B = reference(a);
  for (int i = 0; i < 3; ++i) {
    for (int j = 0; j < 3; ++j) {vf_check(vf_eq(B(i, j), R(i, j)), "rotation-recovered-from-its-angles");}
  }
  vf_reach("rotation_roundtrip");
}
extern "C" void c10_rotation_roundtrip() { rotation_roundtrip<double>(); }
extern "C" void c10_rotation_roundtrip_f() { rotation_roundtrip<float>(); }

// non-unit quaternions describe the same rotation
extern "C" void c10_quaternion_scale()
{
  RPY a = rpy();
  Eigen::Quaterniond q = eulerAnglesToQuaternion(Eigen::Vector3d(a.r, a.p, a.y));
  double s = vf_f64("scale");
  vf_assume((s >= 1e-3) & (s <= 1e3));
  Eigen::Quaterniond qs(q.w() * s, q.x() * s, q.y() * s, q.z() * s);
  Eigen::Matrix3d R1 = q.toRotationMatrix();
  Eigen::Matrix3d R2 = qs.normalized().toRotationMatrix();
  vf_check(same(R1, R2), "scaled-quaternion-gives-the-same-rotation");
  // the library's own conversion must not depend on the quaternion's norm
  Eigen::Vector3d back = quaternionToEulerAngles(qs);
  vf_check(vf_angle_congruent(back[0], a.r) & vf_angle_congruent(back[1], a.p) & vf_angle_congruent(back[2], a.y), "angles-recovered-from-a-non-unit-quaternion");
  vf_reach("quaternion_scale");
}

// planar pair
extern "C" void c10_planar()
{
  double t = vf_angle("theta", -2 * M_PI, 2 * M_PI);
  Eigen::Matrix2d R = eulerAngleToRotation2D(t);
  vf_check(vf_eq(R(0, 0) * R(1, 1) - R(0, 1) * R(1, 0), 1.0) & vf_eq(R.col(0).dot(R.col(1)), 0.0) & vf_eq(R.col(0).squaredNorm(), 1.0), "planar-rotation-is-proper");
  double back = rotation2DToEulerAngle(R);
  vf_check(vf_angle_congruent(back, t), "planar-angle-recovered-modulo-2pi");
  vf_check((back >= 0) & (back <= 2 * vf_pi()), "planar-angle-normalised");
  Eigen::Matrix2d R2 = eulerAngleToRotation2D(back);
  vf_check(vf_eq(R2(0, 0), R(0, 0)) & vf_eq(R2(1, 0), R(1, 0)) & vf_eq(R2(0, 1), R(0, 1)) & vf_eq(R2(1, 1), R(1, 1)), "planar-rotation-recovered");
  vf_reach("planar");
}

// normalisers
template<typename S>
static void normalisers()
{
  if (sizeof(S) == 4) vf_tol(2e-5);
  double v = vf_f64("val");
  vf_assume((v > -4 * vf_pi()) & (v < 4 * vf_pi()));
  S a = between0And2Pi<S>((S)v);
  S b = betweenMinusPiAndPi<S>((S)v);
  vf_check((a >= 0) & (a <= 2 * vf_pi()), "between0And2Pi-in-[0,2pi]");
  vf_check((b >= -vf_pi()) & (b <= vf_pi()), "betweenMinusPiAndPi-in-[-pi,pi]");
  vf_check(vf_angle_congruent((double)a, v), "between0And2Pi-congruent-to-input");
  vf_check(vf_angle_congruent((double)b, v), "betweenMinusPiAndPi-congruent-to-input");
  vf_reach("normalisers");
}
extern "C" void c10_normalisers_d() { normalisers<double>(); }
extern "C" void c10_normalisers_f() { normalisers<float>(); }

// float builders: same formulae over the reals
extern "C" void c10_builders_f()
{
  vf_tol(2e-5);
  RPY a = rpy();
  Eigen::Vector3f ang((float)a.r, (float)a.p, (float)a.y);
  Eigen::Matrix3d Rref = reference(a);
  Eigen::Matrix3f Rm = eulerAnglesToRotation3D<float>(ang);
  for (int i = 0; i < 3; ++i) {
    for (int j = 0; j < 3; ++j) {vf_check(vf_eq(Rm(i, j), Rref(i, j)), "angles-to-rotation-is-RzRyRx");}
  }
  Eigen::Vector3f back = quaternionToEulerAngles<float>(eulerAnglesToQuaternion<float>(ang));
  vf_check(vf_angle_congruent(back[0], a.r) & vf_angle_congruent(back[1], a.p) & vf_angle_congruent(back[2], a.y), "angles-quaternion-angles-modulo-2pi");
  vf_reach("builders_f");
}

// polar / spherical
extern "C" void c10_polar()
{
  double x = vf_f64("x"), y = vf_f64("y");
  double n2 = x * x + y * y;
  vf_assume((n2 >= 1e-12) & (n2 <= 1e12));
  PolarCoordinates<double> p = toPolar(CartesianCoordinates2<double>(x, y));
  CartesianCoordinates2<double> c = toCartesian(p);
  vf_check(vf_eq(c.x(), x) & vf_eq(c.y(), y), "cartesian-polar-cartesian-is-identity");
  vf_check(p.getRange() >= 0, "range-nonnegative");
  double r = vf_f64("range"), az = vf_angle("azimut", -M_PI, M_PI);
  vf_assume((r >= 1e-6) & (r <= 1e6));
  PolarCoordinates<double> q = toPolar(toCartesian(PolarCoordinates<double>(r, az)));
  vf_check(vf_eq(q.getRange(), r), "polar-cartesian-polar-keeps-range");
  vf_check(vf_angle_congruent(q.getAzimut(), az), "polar-cartesian-polar-keeps-azimut");
  vf_reach("polar");
}

extern "C" void c10_spherical()
{
  double x = vf_f64("x"), y = vf_f64("y"), z = vf_f64("z");
  double n2 = x * x + y * y + z * z;
  vf_assume((n2 >= 1e-12) & (n2 <= 1e12) & (x * x + y * y > 0));
  SphericalCoordinates<double> s = toSpherical(CartesianCoordinates3<double>(x, y, z));
  CartesianCoordinates3<double> c = toCartesian(s);
  vf_check(vf_eq(c.x(), x) & vf_eq(c.y(), y) & vf_eq(c.z(), z), "cartesian-spherical-cartesian-is-identity");
  vf_reach("spherical");
}

extern "C" void c10_spherical_inv()
{
  double r = vf_f64("range"), az = vf_angle("azimut", -M_PI, M_PI), el = vf_angle("elevation", 1e-3, M_PI - 1e-3);
  vf_assume((r >= 1e-6) & (r <= 1e6));
  SphericalCoordinates<double> q = toSpherical(toCartesian(SphericalCoordinates<double>(r, az, el)));
  vf_check(vf_eq(q.getRange(), r), "spherical-cartesian-spherical-keeps-range");
  vf_check(vf_angle_congruent(q.getAzimut(), az), "spherical-cartesian-spherical-keeps-azimut");
  vf_check(vf_angle_eq(q.getElevation(), el), "spherical-cartesian-spherical-keeps-elevation");
  vf_reach("spherical_inv");
}
