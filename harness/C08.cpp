// C08 — kd-tree nearest-neighbour queries agree with exhaustive search (concrete point sets, symbolic query)
#include "vf.h"
#include "vfnames.h"
#include <cmath>
#include <vector>
#include "romea_core_common/pointset/KdTree.hpp"
using namespace romea::core;

static const char * PN[64] = {VF_N64("pt")};
static const char * PN2[64] = {VF_N64("pu")};
static const char * QN[3] = {"q0", "q1", "q2"};

template<class P> struct Dim;
template<> struct Dim<Eigen::Vector2d> { static const int D = 2; };
template<> struct Dim<Eigen::Vector3d> { static const int D = 3; };
template<> struct Dim<HomogeneousCoordinates2d> { static const int D = 2; };

template<class P>
static P mk(const double * v)
{
  if constexpr (Dim<P>::D == 2) {
    return P(v[0], v[1]);
  } else {
    return P(v[0], v[1], v[2]);
  }
}

template<class P>
static void query()
{
  const int D = Dim<P>::D, n = (int)vf_param("n"), k = (int)vf_param("k");
  double x[48][3];
  PointSet<P> pts;
  for (int i = 0; i < n; ++i) {
    for (int d = 0; d < D; ++d) {
      int idx = 3 * i + d;
      x[i][d] = idx < 64 ? vf_paramf(PN[idx]) : vf_paramf(PN2[idx - 64]);
    }
    pts.push_back(mk<P>(x[i]));
  }
  KdTree<P> tree(pts);
  double q[3] = {0, 0, 0};
  for (int d = 0; d < D; ++d) {
    q[d] = vf_f64(QN[d]);
    vf_assume((q[d] <= 1e6) & (q[d] >= -1e6));
  }
  P qp = mk<P>(q);
  double dist[48];
  for (int i = 0; i < n; ++i) {
    dist[i] = 0;
    for (int d = 0; d < D; ++d) {dist[i] += (q[d] - x[i][d]) * (q[d] - x[i][d]);}
  }
  if (k == 0) {
    size_t idx = 999;
    double d2 = -1;
    tree.findNearestNeighbor(qp, idx, d2);
    vf_check(idx < (size_t)n, "nearest-index-is-valid");
    if (idx < (size_t)n) {
      vf_check(vf_eq(d2, dist[idx]), "reported-squared-distance-matches-the-indexed-point");
      bool minimal = true;
      for (int j = 0; j < n; ++j) {minimal = minimal & (dist[idx] <= dist[j]);}
      vf_check(minimal, "nearest-neighbour-is-at-minimal-distance");
    }
  } else {
    std::vector<size_t> idx(k, 999);
    std::vector<double> d2(k, -1);
    tree.findNearestNeighbors(qp, k, idx, d2);
    bool valid = true, distinct = true;
    for (int a = 0; a < k; ++a) {
      valid = valid & (idx[a] < (size_t)n);
      for (int b = a + 1; b < k; ++b) {distinct = distinct & (idx[a] != idx[b]);}
    }
    vf_check(valid & distinct, "k-nearest-indexes-are-valid-and-distinct");
    if (valid) {
      bool match = true, asc = true, complete = true;
      for (int a = 0; a < k; ++a) {
        match = match & vf_eq(d2[a], dist[idx[a]]);
        if (a + 1 < k) {asc = asc & (d2[a] <= d2[a + 1]);}
      }
      for (int j = 0; j < n; ++j) {
        bool in = false;
        for (int a = 0; a < k; ++a) {in = in | (idx[a] == (size_t)j);}
        if (!in) {complete = complete & (dist[j] >= dist[idx[k - 1]]);}
      }
      vf_check(match, "reported-squared-distances-match-the-indexed-points");
      vf_check(asc, "k-nearest-in-ascending-order");
      vf_check(complete, "no-other-point-is-closer-than-the-k-th");
    }
  }
  vf_reach("query");
}
extern "C" void c08_v2d() { query<Eigen::Vector2d>(); }
extern "C" void c08_v3d() { query<Eigen::Vector3d>(); }
extern "C" void c08_h2d() { query<HomogeneousCoordinates2d>(); }
