// C05 — point-to-plane least-squares registration
#include "vf.h"
#include "vfnames.h"
#include <cmath>
#include "romea_core_common/transform/estimation/FindRigidTransformationByLeastSquares.hpp"
using namespace romea::core;

static const char * SX[64] = {VF_N64("s")};
static const char * TX[64] = {VF_N64("t")};
static const char * NX[64] = {VF_N64("n")};

template<class P> struct Dim;
template<> struct Dim<Eigen::Vector2d> { static const int D = 2; };
template<> struct Dim<Eigen::Vector3d> { static const int D = 3; };
template<> struct Dim<HomogeneousCoordinates2d> { static const int D = 2; };
template<> struct Dim<HomogeneousCoordinates3d> { static const int D = 3; };

template<class P>
static P mk(const double * v)
{
  if constexpr (Dim<P>::D == 2) {
    return P(v[0], v[1]);
  } else {
    return P(v[0], v[1], v[2]);
  }
}

template<class P>
static P mkn(const double * v)          // normals of homogeneous type carry 0 in the last coordinate
{
  P p = mk<P>(v);
  if constexpr (P::RowsAtCompileTime != Dim<P>::D) {p[Dim<P>::D] = 0;}
  return p;
}

template<class P>
struct Problem
{
  static const int D = Dim<P>::D;
  static const int NE = D == 2 ? 3 : 6;
  int N;
  double s[16][3], t[16][3], n[16][3];
  PointSet<P> src, tgt;
  NormalSet<P> nrm;

  void make(double scale = 1.0)
  {
    N = (int)vf_param("N");
    for (int k = 0; k < N; ++k) {
      for (int d = 0; d < D; ++d) {
        s[k][d] = vf_f64(SX[3 * k + d]);
        t[k][d] = vf_f64(TX[3 * k + d]);
        n[k][d] = vf_f64(NX[3 * k + d]);
        vf_assume((s[k][d] <= 100) & (s[k][d] >= -100) & (t[k][d] <= 100) & (t[k][d] >= -100) & (n[k][d] <= 1) & (n[k][d] >= -1));
      }
      double ss[3] = {s[k][0] * scale, s[k][1] * scale, s[k][2] * scale};
      double tt[3] = {t[k][0] * scale, t[k][1] * scale, t[k][2] * scale};
      src.push_back(mk<P>(ss));
      tgt.push_back(mk<P>(tt));
      nrm.push_back(mkn<P>(n[k]));
    }
  }

  // oracle row k of the linearised point-to-plane model for correspondence (is, it): [n, s x n | (t - s).n]
  void row(int is, int it, double * r, double & y, double scale = 1.0) const
  {
    const double * sp = s[is];
    const double * tp = t[it];
    const double * np = n[it];
    y = 0;
    for (int d = 0; d < D; ++d) {
      r[d] = np[d];
      y += (tp[d] * scale - sp[d] * scale) * np[d];
    }
    if (D == 2) {
      r[2] = (sp[0] * np[1] - sp[1] * np[0]) * scale;
    } else {
      r[3] = (sp[1] * np[2] - sp[2] * np[1]) * scale;
      r[4] = (sp[2] * np[0] - sp[0] * np[2]) * scale;
      r[5] = (sp[0] * np[1] - sp[1] * np[0]) * scale;
    }
  }
};

template<class M>
static void estimate_of(const M & H, int D, double * e)
{
  if (D == 2) {
    e[0] = H(0, 2); e[1] = H(1, 2); e[2] = H(1, 0);
  } else {
    e[0] = H(0, 3); e[1] = H(1, 3); e[2] = H(2, 3); e[3] = H(2, 1); e[4] = H(0, 2); e[5] = H(1, 0);
  }
}

// rows written by the real code == oracle rows; result = I + skew(w) | tau with (tau, w) satisfying the oracle
// normal equations; index-based (permuted) and aligned overloads agree
template<class P>
static void solve()
{
  Problem<P> pb;
  pb.make();
  const int D = Problem<P>::D, NE = Problem<P>::NE, N = pb.N;
  FindRigidTransformationByLeastSquares<P> est;
  // correspondences: a rotation of the identity pairing by `shift` on the target side
  const int shift = (int)vf_param("shift");
  std::vector<Correspondence> corr;
  for (int k = 0; k < N; ++k) {corr.push_back(Correspondence(k, (k + shift) % N));}
  auto H = est.find(pb.src, pb.tgt, pb.nrm, corr);
  double R[16][6], Y[16];
  bool rows_ok = true;
  for (int k = 0; k < N; ++k) {
    pb.row(k, (k + shift) % N, R[k], Y[k]);
    for (int j = 0; j < NE; ++j) {rows_ok = rows_ok & vf_eq(est.leastSquares_.getJ()(k, j), R[k][j]);}
    rows_ok = rows_ok & vf_eq(est.leastSquares_.getY()(k), Y[k]);
  }
  vf_check(rows_ok, "design-rows-are-[n, s x n | (t-s).n]-of-the-corresponded-pairs");
  double e[6];
  estimate_of(H, D, e);
  // structure: identity plus skew rotation plus translation
  bool st = true;
  for (int i = 0; i < D; ++i) {
    st = st & vf_eq(H(i, i), 1.0) & vf_eq(H(D, i), 0.0);
    for (int j = i + 1; j < D; ++j) {st = st & vf_eq(H(i, j), -H(j, i));}
  }
  st = st & vf_eq(H(D, D), 1.0);
  vf_check(st, "result-is-identity-plus-skew-plus-translation");
  for (int i = 0; i < NE; ++i) {
    double g = 0;
    for (int k = 0; k < N; ++k) {
      double res = -Y[k];
      for (int j = 0; j < NE; ++j) {res += R[k][j] * e[j];}
      g += R[k][i] * res;
    }
    vf_check(vf_eq(g, 0.0), "parameters-satisfy-the-normal-equations-of-the-linearised-problem");
  }
  if (shift == 0) {
    FindRigidTransformationByLeastSquares<P> est2;
    auto H2 = est2.find(pb.src, pb.tgt, pb.nrm);
    bool same = true;
    for (int i = 0; i <= D; ++i) {
      for (int j = 0; j <= D; ++j) {same = same & vf_eq(H(i, j), H2(i, j));}
    }
    vf_check(same, "aligned-and-index-based-overloads-agree");
  }
  vf_reach("solve");
}
extern "C" void c05_solve_v2d() { solve<Eigen::Vector2d>(); }
extern "C" void c05_solve_v3d() { solve<Eigen::Vector3d>(); }
extern "C" void c05_solve_h2d() { solve<HomogeneousCoordinates2d>(); }
extern "C" void c05_solve_h3d() { solve<HomogeneousCoordinates3d>(); }

// isotropic preconditioning of both sets + setPreconditioner leaves the answer unchanged (2D)
template<class P>
static void precond()
{
  Problem<P> pb;
  pb.make();
  const int D = Problem<P>::D, NE = Problem<P>::NE, N = pb.N;
  double scale = vf_f64("scale");
  vf_assume((scale >= 1e-3) & (scale <= 1e3));
  PreconditionedPointSet<P> ps(pb.src, scale), pt(pb.tgt, scale);
  FindRigidTransformationByLeastSquares<P> est;
  est.setPreconditioner(ps, pt);
  auto H = est.find(ps, pt, pb.nrm);
  double e[6];
  estimate_of(H, D, e);
  // the returned parameters satisfy the normal equations of the UNSCALED problem
  double R[16][6], Y[16];
  for (int k = 0; k < N; ++k) {pb.row(k, k, R[k], Y[k]);}
  for (int i = 0; i < NE; ++i) {
    double g = 0;
    for (int k = 0; k < N; ++k) {
      double res = -Y[k];
      for (int j = 0; j < NE; ++j) {res += R[k][j] * e[j];}
      g += R[k][i] * res;
    }
    vf_check(vf_eq(g, 0.0), "preconditioned-answer-solves-the-unpreconditioned-problem");
  }
  vf_reach("precond");
}
extern "C" void c05_precond_v2d() { precond<Eigen::Vector2d>(); }
extern "C" void c05_precond_v3d() { precond<Eigen::Vector3d>(); }

// pure translation with spanning normals is recovered exactly
template<class P>
static void translation()
{
  Problem<P> pb;
  pb.N = (int)vf_param("N");
  const int D = Problem<P>::D, N = pb.N;
  double T[3] = {vf_f64("T0"), vf_f64("T1"), vf_f64("T2")};
  for (int k = 0; k < N; ++k) {
    for (int d = 0; d < D; ++d) {
      pb.s[k][d] = vf_f64(SX[3 * k + d]);
      pb.n[k][d] = vf_f64(NX[3 * k + d]);
      pb.t[k][d] = pb.s[k][d] + T[d];
    }
    pb.src.push_back(mk<P>(pb.s[k]));
    pb.tgt.push_back(mk<P>(pb.t[k]));
    pb.nrm.push_back(mkn<P>(pb.n[k]));
  }
  FindRigidTransformationByLeastSquares<P> est;
  auto H = est.find(pb.src, pb.tgt, pb.nrm);
  // full rank: the normal matrix of the design rows is non-singular (stated as: the only parameter vector with
  // zero residual on every row difference is zero) - here via determinant of J^T J for the 2D case
  const int NE = Problem<P>::NE;
  double A[6][6];
  for (int i = 0; i < NE; ++i) {
    for (int j = 0; j < NE; ++j) {
      A[i][j] = 0;
      for (int k = 0; k < N; ++k) {A[i][j] += est.leastSquares_.getJ()(k, i) * est.leastSquares_.getJ()(k, j);}
    }
  }
  if (NE == 3) {
    double det = A[0][0] * (A[1][1] * A[2][2] - A[1][2] * A[2][1]) - A[0][1] * (A[1][0] * A[2][2] - A[1][2] * A[2][0]) +
      A[0][2] * (A[1][0] * A[2][1] - A[1][1] * A[2][0]);
    vf_assume(det != 0);
  }
  double e[6];
  estimate_of(H, D, e);
  bool ok = true;
  for (int d = 0; d < D; ++d) {ok = ok & vf_eq(e[d], T[d]);}
  for (int d = D; d < NE; ++d) {ok = ok & vf_eq(e[d], 0.0);}
  vf_check(ok, "pure-translation-recovered-exactly");
  vf_reach("translation");
}
extern "C" void c05_translation_v2d() { translation<Eigen::Vector2d>(); }
