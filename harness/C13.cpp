#include "vf.h"
#include <limits>
#include "romea_core_common/containers/grid/GridIndexMapping.hpp"
using namespace romea::core;

template<typename S, size_t D>
static void interval_entry(const char * tag)
{
  using M = GridIndexMapping<S, D>;
  typename M::PointType lo, up, p;
  static const char * nlo[3] = {"lo0", "lo1", "lo2"};
  static const char * nup[3] = {"up0", "up1", "up2"};
  static const char * np[3] = {"p0", "p1", "p2"};
  for (size_t d = 0; d < D; ++d) {
    lo[d] = sizeof(S) == 8 ? (S)vf_f64(nlo[d]) : (S)vf_f32(nlo[d]);
    up[d] = sizeof(S) == 8 ? (S)vf_f64(nup[d]) : (S)vf_f32(nup[d]);
    p[d] = sizeof(S) == 8 ? (S)vf_f64(np[d]) : (S)vf_f32(np[d]);
  }
  S res = sizeof(S) == 8 ? (S)vf_f64("res") : (S)vf_f32("res");
  if (vf_paramf("fixres") > 0) {res = (S)vf_paramf("fixres");}
  vf_assume((res >= S(1e-3)) & (res <= S(10)));
  for (size_t d = 0; d < D; ++d) {
    vf_assume((lo[d] >= S(-1e3)) & (up[d] <= S(1e3)) & (lo[d] <= up[d]));
    vf_assume((p[d] >= lo[d]) & (p[d] <= up[d]));
  }
  // stated bound: number of cells per axis (the table-filling loop is concretised)
  const S maxcells = (S)vf_param("maxcells");
  for (size_t d = 0; d < D; ++d) {
    vf_assume(std::ceil(up[d] / res) - std::floor(lo[d] / res) + 1 <= maxcells);
  }
  M m(Interval<S, D>(lo, up), res);
  auto n = m.getNumberOfCellsAlongAxes();
  auto idx = m.computeCellIndexes(p);
  for (size_t d = 0; d < D; ++d) {
    vf_check(idx[d] < n[d], "index-in-bounds");
  }
  auto c = m.computeCellCenterPosition(idx);
  for (size_t d = 0; d < D; ++d) {
    // a point exactly on a cell border is at half a resolution from both centres; the centre is computed with two
    // roundings, so a few ulps of slack are part of the statement for non-dyadic resolutions (0.1, 0.001)
    S half = res / 2;
    S slack = 8 * std::numeric_limits<S>::epsilon() * ((p[d] < 0 ? -p[d] : p[d]) + (c[d] < 0 ? -c[d] : c[d]) + res);
    vf_check((p[d] - c[d] <= half + slack) & (c[d] - p[d] <= half + slack), "within-half-res");
  }
  vf_reach(tag);
}

extern "C" void c13_interval_d2() { interval_entry<double, 2>("d2"); }
extern "C" void c13_interval_f3() { interval_entry<float, 3>("f3"); }
