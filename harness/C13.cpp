#include "vf.h"
#include <limits>
#include "romea_core_common/containers/grid/GridIndexMapping.hpp"
using namespace romea::core;

template<typename S, size_t D>
static void interval_entry(const char * tag)
{
  using M = GridIndexMapping<S, D>;
  typename M::PointType lo, up, p;
  static const char * nlo[3] = {"lo0", "lo1", "lo2"};
  static const char * nup[3] = {"up0", "up1", "up2"};
  static const char * np[3] = {"p0", "p1", "p2"};
  for (size_t d = 0; d < D; ++d) {
    lo[d] = sizeof(S) == 8 ? (S)vf_f64(nlo[d]) : (S)vf_f32(nlo[d]);
    up[d] = sizeof(S) == 8 ? (S)vf_f64(nup[d]) : (S)vf_f32(nup[d]);
    p[d] = sizeof(S) == 8 ? (S)vf_f64(np[d]) : (S)vf_f32(np[d]);
  }
  S res = sizeof(S) == 8 ? (S)vf_f64("res") : (S)vf_f32("res");
  if (vf_paramf("fixres") > 0) {res = (S)vf_paramf("fixres");}
  vf_assume((res >= S(1e-3)) & (res <= S(10)));
  for (size_t d = 0; d < D; ++d) {
    vf_assume((lo[d] >= S(-1e3)) & (up[d] <= S(1e3)) & (lo[d] <= up[d]));
    vf_assume((p[d] >= lo[d]) & (p[d] <= up[d]));
  }
  // stated bound: number of cells per axis (the table-filling loop is concretised)
  const S maxcells = (S)vf_param("maxcells");
  for (size_t d = 0; d < D; ++d) {
    vf_assume(std::ceil(up[d] / res) - std::floor(lo[d] / res) + 1 <= maxcells);
  }
  // form 1: symmetric maximal-range constructor (extent [-range, range] on every axis, range = up[0])
  const bool symmetric = vf_param("form") == 1;
  if (symmetric) {
    for (size_t d = 0; d < D; ++d) {vf_assume((up[d] == up[0]) & (lo[d] == -up[0]));}
  }
  M m = symmetric ? M(up[0], res) : M(Interval<S, D>(lo, up), res);
  auto n = m.getNumberOfCellsAlongAxes();
  // cell centres: map back to their own indexes, are spaced by the resolution, first and last cells cover the bounds
  for (size_t d = 0; d < D; ++d) {
    const std::vector<S> & cc = m.getCellCentersPositionAlong(d);
    vf_check(cc.size() == n[d], "one-centre-per-cell");
    const S sl = 8 * std::numeric_limits<S>::epsilon() * ((lo[d] < 0 ? -lo[d] : lo[d]) + (up[d] < 0 ? -up[d] : up[d]) + res);
    for (size_t k = 0; k < cc.size(); ++k) {
      typename M::PointType q = p;
      q[d] = cc[k];
      vf_check(m.computeCellIndexes(q)[d] == k, "cell-centre-maps-back-to-its-own-index");
      if (k + 1 < cc.size()) {
        vf_check((cc[k + 1] - cc[k] <= res + sl) & (cc[k + 1] - cc[k] >= res - sl), "centres-are-spaced-by-the-resolution");
      }
    }
    vf_check((cc.front() - res / 2 <= lo[d] + sl) & (cc.back() + res / 2 >= up[d] - sl), "first-and-last-cells-cover-the-extent-bounds");
  }
  auto idx = m.computeCellIndexes(p);
  for (size_t d = 0; d < D; ++d) {
    vf_check(idx[d] < n[d], "index-in-bounds");
  }
  auto c = m.computeCellCenterPosition(idx);
  for (size_t d = 0; d < D; ++d) {
    // a point exactly on a cell border is at half a resolution from both centres; the centre is computed with two
    // roundings, so a few ulps of slack are part of the statement for non-dyadic resolutions (0.1, 0.001)
    S half = res / 2;
    S slack = 8 * std::numeric_limits<S>::epsilon() * ((p[d] < 0 ? -p[d] : p[d]) + (c[d] < 0 ? -c[d] : c[d]) + res);
    vf_check((p[d] - c[d] <= half + slack) & (c[d] - p[d] <= half + slack), "within-half-res");
  }
  vf_reach(tag);
}

extern "C" void c13_interval_d2() { interval_entry<double, 2>("d2"); }
extern "C" void c13_interval_f3() { interval_entry<float, 3>("f3"); }
