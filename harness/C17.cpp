// C17 — rate monitoring and rate check-ups follow the stamped-event history
#include "vf.h"
#include "vfnames.h"
#include <cmath>
#include <string>
#include "romea_core_common/monitoring/RateMonitoring.hpp"
#include "romea_core_common/diagnostic/CheckupRate.hpp"
using namespace romea::core;

static const char * KIND[32] = {VF_N16("kind"), "kind16", "kind17", "kind18", "kind19", "kind20", "kind21", "kind22", "kind23", "kind24", "kind25", "kind26", "kind27", "kind28", "kind29", "kind30", "kind31"};
static const char * DT[32] = {VF_N16("dt"), "dt16", "dt17", "dt18", "dt19", "dt20", "dt21", "dt22", "dt23", "dt24", "dt25", "dt26", "dt27", "dt28", "dt29", "dt30", "dt31"};

// window size = clamp(trunc(2 * expected rate), 4, 64)
extern "C" void c17_window()
{
  double rate = vf_f64("rate");
  vf_assume((rate >= 0.5) & (rate <= 200));
  RateMonitoring rm(rate);
  long w = (long)(2 * rate);
  if (w < 4) {w = 4;}
  if (w > 64) {w = 64;}
  vf_check((long)rm.windowSize_ == w, "window-is-clamp(2*rate,4,64)");
  vf_reach("window");
}

struct Oracle
{
  long long stamps[40];
  int n = 0;
  bool timed_out = false;
  double rate = 0;

  void data(long long t, int W)
  {
    stamps[n++] = t;
    timed_out = false;
    if (n >= W + 1) {
      rate = (double)W * 1e9 / (double)(stamps[n - 1] - stamps[n - 1 - W]);
    }
    // fewer than W+1 stamps: the rate keeps its value (0, possibly forced by a timeout)
  }
  bool heartbeat(long long t)
  {
    if (n > 0 && (double)(t - stamps[n - 1]) / 1e9 > 0.5) {
      rate = 0;
      timed_out = true;
      return false;
    }
    return true;
  }
};

template<class CK>
static void history()
{
  const double expected = vf_paramf("rate"), eps = vf_paramf("eps");
  const int events = (int)vf_param("events");
  const std::string name("sensor");
  CheckupRate<CK> cr(name, expected, eps);
  const int W = (int)cr.rateMonitoring_.windowSize_;
  vf_check(W == (int)vf_param("W"), "window-size");
  Oracle orc;
  {
    DiagnosticReport r = cr.getReport();
    vf_check((r.diagnostics.front().status == DiagnosticStatus::ERROR) & (r.diagnostics.front().message == "no data received from " + name) &
      r.info.begin()->second.empty(), "no-data-received-before-the-first-stamp");
  }
  long long now = 0;
  for (int k = 0; k < events; ++k) {
    long long kind = vf_i64(KIND[k]);
    vf_assume(kind >= 0);
    vf_assume(kind <= 1);
    kind = vf_enum(kind);
    long long dt = vf_i64(DT[k]);
    if (kind == 0) {
      // data stamp: strictly increasing, period in [1 us, 10 s]
      vf_assume(dt >= 1000);
      vf_assume(dt <= 10000000000LL);
      now = (orc.n ? orc.stamps[orc.n - 1] : 0) + dt;
      DiagnosticStatus s = cr.evaluate(durationFromNanoSecond(now));
      orc.data(now, W);
      const double rate = cr.rateMonitoring_.getRate();
      vf_check(vf_eq(rate, orc.rate), "rate-is-W-over-the-span-of-the-last-W-periods-or-0");
      DiagnosticReport r = cr.getReport();
      const Diagnostic & d = r.diagnostics.front();
      vf_check(d.status == s, "returned-status-equals-stored-status");
      const std::string & msg = d.message;
      const bool m_ok = msg == name + "_rate is OK.", m_low = msg == name + "_rate is too low.", m_high = msg == name + "_rate is too high.";
      bool agree;
      if (vf_param("greater")) {
        const bool ok = rate - expected > -eps;
        agree = (ok & (s == DiagnosticStatus::OK) & m_ok) | (!ok & (s == DiagnosticStatus::ERROR) & m_low);
      } else {
        const bool low = rate - expected < -eps, high = rate - expected > eps;
        agree = (low & (s == DiagnosticStatus::ERROR) & m_low) | (high & (s == DiagnosticStatus::ERROR) & m_high) |
          (!low & !high & (s == DiagnosticStatus::OK) & m_ok);
      }
      vf_check(agree, "status-and-message-agree-with-the-rate-and-threshold");
      vf_check(r.info.begin()->second == toStringInfoValue(rate), "rate-string-is-the-printed-rate");
    } else {
      // heartbeat some time after the last event (before or after the 0.5 s limit)
      vf_assume(dt >= 0);
      vf_assume(dt <= 3000000000LL);
      const long long t = (orc.n ? orc.stamps[orc.n - 1] : 0) + dt;
      const double before = cr.rateMonitoring_.getRate();
      DiagnosticReport rb = cr.getReport();
      const bool alive = cr.heartBeatCallback(durationFromNanoSecond(t));
      const bool expect_alive = orc.heartbeat(t);
      vf_check(alive == expect_alive, "heartbeat-reports-timeout-iff-more-than-0.5s-after-the-last-stamp");
      DiagnosticReport r = cr.getReport();
      if (!alive) {
        vf_check(cr.rateMonitoring_.getRate() == 0.0, "timeout-forces-the-rate-to-0");
        vf_check((r.diagnostics.front().status == DiagnosticStatus::STALE) & (r.diagnostics.front().message == name + "_rate timeout.") &
          r.info.begin()->second.empty(), "STALE-with-empty-value-after-a-timeout");
      } else {
        vf_check(vf_eq(cr.rateMonitoring_.getRate(), before), "early-heartbeat-leaves-the-rate");
        vf_check((r.diagnostics.front().status == rb.diagnostics.front().status) & (r.diagnostics.front().message == rb.diagnostics.front().message) &
          (r.info.begin()->second == rb.info.begin()->second), "early-heartbeat-leaves-the-report");
      }
    }
  }
  vf_reach("history");
}
extern "C" void c17_history_eq() { history<CheckupEqualTo<double>>(); }
extern "C" void c17_history_gt() { history<CheckupGreaterThan<double>>(); }
