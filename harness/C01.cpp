// C01 — ECEF <-> geodetic
#include "vf.h"
#include <cmath>
#include <Eigen/Geometry>
#include "romea_core_common/geodesy/ECEFConverter.hpp"
using namespace romea::core;

static const double DEG = M_PI / 180.0;

static ECEFConverter converter()
{
  ECEFConverter c;
  double a = vf_f64("a"), e2 = vf_f64("e2");
  vf_assume((a >= 6378137.0 * 0.999) & (a <= 6378137.0 * 1.001) & (e2 >= 0) & (e2 <= 0.00689));
  c.ellipsoid_.a = a;
  c.ellipsoid_.e2 = e2;
  return c;
}

struct G { double lat, lon, h; };
static G geodetic()
{
  G g;
  g.lat = vf_angle("lat", -89.9 * DEG, 89.9 * DEG);
  g.lon = vf_angle("lon", -M_PI, M_PI);
  g.h = vf_f64("h");
  vf_assume((g.h >= -11000) & (g.h <= 100000));
  return g;
}

// forward map against the geometric definition: foot point on the ellipsoid, normal parallel to its gradient
extern "C" void c01_forward()
{
  ECEFConverter c = converter();
  G g = geodetic();
  const double a = c.ellipsoid_.a, e2 = c.ellipsoid_.e2;
  Eigen::Vector3d P = c.toECEF(makeGeodeticCoordinates(g.lat, g.lon, g.h));
  Eigen::Vector3d n(std::cos(g.lat) * std::cos(g.lon), std::cos(g.lat) * std::sin(g.lon), std::sin(g.lat));
  Eigen::Vector3d P0 = P - g.h * n;
  double q = (P0[0] * P0[0] + P0[1] * P0[1] + P0[2] * P0[2] / (1 - e2)) / (a * a);
  vf_check(vf_eq(q, 1.0), "foot-point-lies-on-the-ellipsoid");
  Eigen::Vector3d grad(P0[0], P0[1], P0[2] / (1 - e2));
  Eigen::Vector3d cr = n.cross(grad) / a;
  vf_check(vf_eq(cr[0], 0) & vf_eq(cr[1], 0) & vf_eq(cr[2], 0) & (n.dot(grad) > 0), "point-lies-on-the-outward-normal-through-lat-lon");
  vf_reach("forward");
}

// facts about the forward image used as cuts by the inverse entries (proved, then assumed):
// the horizontal radius is (N + h) cos(lat) > 0
static void forward_lemmas(const ECEFConverter & c, const G & g, const Eigen::Vector3d & P)
{
  if (!vf_symbolic()) {return;}
  const double a = c.ellipsoid_.a, e2 = c.ellipsoid_.e2;
  const double X = P[0], Y = P[1];
  const double N = a / (sqrt(1.0 - e2 * sin(g.lat) * sin(g.lat)));
  const double norm = sqrt(X * X + Y * Y);
  vf_lemma(N + g.h > 6000000.0, "N-plus-h-is-positive");
  vf_lemma(norm == (N + g.h) * cos(g.lat), "horizontal-radius-is-(N+h)cos(lat)");
}

// inverse: longitude
extern "C" void c01_inverse_longitude()
{
  ECEFConverter c = converter();
  G g = geodetic();
  Eigen::Vector3d P = c.toECEF(makeGeodeticCoordinates(g.lat, g.lon, g.h));
  forward_lemmas(c, g, P);
  GeodeticCoordinates r = c.toWGS84(P);
  vf_check((r.longitude >= -vf_pi()) & (r.longitude <= vf_pi()), "longitude-in-[-pi,pi]");
  vf_check(vf_angle_congruent(r.longitude, g.lon), "inverse-returns-the-longitude");
  vf_check((r.latitude >= -vf_pi() / 2) & (r.latitude <= vf_pi() / 2), "latitude-in-[-pi/2,pi/2]");
  vf_reach("inverse_longitude");
}

// inverse: latitude and height, the iteration abstracted by its last step.
// mode 0: the true latitude is a fixed point of the iteration, and the height formula returns h there
// mode 1: any exact fixed point of the iteration in range is the true latitude
extern "C" void c01_inverse_latitude()
{
  ECEFConverter c = converter();
  G g = geodetic();
  Eigen::Vector3d P = c.toECEF(makeGeodeticCoordinates(g.lat, g.lon, g.h));
  forward_lemmas(c, g, P);
  if (vf_param("mode") == 0) {vf_havoc_is(0, g.lat);}
  GeodeticCoordinates r = c.toWGS84(P);
  if (vf_symbolic()) {
    double prev = vf_havoc(0);
    if (vf_param("mode") == 0) {
      vf_lemma(vf_angle_eq(r.latitude, g.lat), "true-latitude-is-a-fixed-point-of-the-iteration");
      vf_check(vf_eq(r.altitude, g.h), "height-formula-returns-h-at-the-true-latitude");
    } else {
      vf_assume(prev == r.latitude);
      vf_check(vf_angle_eq(r.latitude, g.lat), "every-fixed-point-is-the-true-latitude");
    }
  } else {
    vf_check(vf_near(r.latitude, g.lat, 1e-9), "round-trip-latitude-within-1e-9");
    vf_check(std::fabs(r.altitude - g.h) <= 1e-3, "round-trip-height-within-1mm");
  }
  vf_reach("inverse_latitude");
}

// Cartesian -> geodetic -> Cartesian, assuming the iteration stopped on an exact fixed point
extern "C" void c01_cartesian()
{
  ECEFConverter c = converter();
  Eigen::Vector3d P(vf_f64("X"), vf_f64("Y"), vf_f64("Z"));
  const double a = c.ellipsoid_.a;
  double r2 = P.squaredNorm(), rho2 = P[0] * P[0] + P[1] * P[1];
  // near the Earth, away from the polar axis (|lat| <= 89.9 deg)
  vf_assume((r2 >= (a - 35000) * (a - 35000)) & (r2 <= (a + 101000) * (a + 101000)) & (rho2 >= 1e8));
  GeodeticCoordinates g = c.toWGS84(P);
  vf_check((g.longitude >= -vf_pi()) & (g.longitude <= vf_pi()), "longitude-in-[-pi,pi]");
  vf_check((g.latitude >= -vf_pi() / 2) & (g.latitude <= vf_pi() / 2), "latitude-in-[-pi/2,pi/2]");
  vf_check((g.longitude == g.longitude) & (g.latitude == g.latitude) & (g.altitude == g.altitude), "results-are-numbers");
  if (vf_symbolic()) {
    vf_assume(vf_havoc(0) == g.latitude);
  }
  Eigen::Vector3d B = c.toECEF(g);
  vf_check(vf_near(B[0], P[0], 1e-9) & vf_near(B[1], P[1], 1e-9), "cartesian-round-trip-x-y");
  vf_check(vf_near(B[2], P[2], 1e-9), "cartesian-round-trip-z");
  vf_reach("cartesian");
}
