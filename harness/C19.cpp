// C19 — shared variables, statistics and check-ups under concurrent use: lock-set discipline + sequential semantics
#include "vf.h"
#include <cmath>
#include <string>
#include <optional>
#include "romea_core_common/concurrency/SharedVariable.hpp"
#include "romea_core_common/concurrency/SharedOptionalVariable.hpp"
#include "romea_core_common/monitoring/OnlineAverage.hpp"
#include "romea_core_common/monitoring/OnlineVariance.hpp"
#include "romea_core_common/monitoring/RateMonitoring.hpp"
#include "romea_core_common/diagnostic/CheckupEqualTo.hpp"
#include "romea_core_common/diagnostic/CheckupGreaterThan.hpp"
#include "romea_core_common/diagnostic/CheckupLowerThan.hpp"
#include "romea_core_common/diagnostic/CheckupRate.hpp"
#include "romea_core_common/diagnostic/CheckupReliability.hpp"
using namespace romea::core;

struct Pair { long a; double b; };

extern "C" void c19_shared_variable()
{
  SharedVariable<Pair> sv(Pair{1, 2.0});
  vf_watch(&sv, sizeof(sv), &sv.mutex_, "SharedVariable");
  Pair p{(long)vf_i64("a"), vf_f64("b")};
  vf_thread(1, "store");
  sv.store(p);
  vf_thread(2, "load");
  Pair q = sv.load();
  vf_thread(2, "operator T");
  Pair r = sv;
  vf_thread(1, "operator=");
  sv = p;
  vf_watch_end();
  vf_check((q.a == p.a) & (q.b == p.b) & (r.a == p.a) & (r.b == p.b), "load-returns-the-last-stored-value-whole");
  vf_reach("shared_variable");
}

// word-sized payloads take the same locked path as larger ones
extern "C" void c19_shared_variable_small()
{
  SharedVariable<double> sv(0.0);
  vf_watch(&sv, sizeof(sv), &sv.mutex_, "SharedVariableSmall");
  double p = vf_f64("b");
  vf_thread(1, "store");
  sv.store(p);
  vf_thread(2, "load");
  double q = sv.load();
  vf_thread(2, "operator T");
  double r = sv;
  vf_watch_end();
  vf_check((q == p) & (r == p), "load-returns-the-last-stored-value");
  vf_reach("shared_variable_small");
}

extern "C" void c19_shared_optional()
{
  SharedOptionalVariable<long> so;
  vf_watch(&so, sizeof(so), &so.mutex_, "SharedOptionalVariable");
  long v1 = (long)vf_i64("v1"), v2 = (long)vf_i64("v2");
  vf_thread(1, "store");
  so.store(v1);
  vf_thread(2, "consume");
  std::optional<long> c1 = so.consume();
  vf_thread(3, "consume");
  std::optional<long> c2 = so.consume();
  vf_thread(1, "store");
  so.store(v2);
  vf_thread(3, "consume");
  std::optional<long> c3 = so.consume();
  vf_watch_end();
  vf_check(c1.has_value() && *c1 == v1, "stored-value-is-handed-to-the-first-consumer");
  vf_check(!c2.has_value(), "a-value-is-handed-to-at-most-one-consumer");
  vf_check(c3.has_value() && *c3 == v2, "values-are-consumed-in-store-order");
  vf_reach("shared_optional");
}

template<class S>
static void statistic(const char * name, bool variance)
{
  S s(0.1, 3);
  s.update(1.0);
  s.update(2.0);
  s.update(3.0);
  vf_watch(&s, sizeof(s), &s.mutex_, name);
  double v = vf_f64("v");
  vf_assume((v >= -1e6) & (v <= 1e6));
  vf_thread(1, "update");
  s.update(v);
  vf_thread(2, "getAverage");
  double a = s.getAverage();
  vf_thread(2, "isAvailable");
  bool av = s.isAvailable();
  if constexpr (std::is_same<S, OnlineVariance>::value) {
    vf_thread(2, "getVariance");
    double var = s.getVariance();
    (void)var;
  }
  vf_thread(1, "reset");
  s.reset();
  vf_watch_end();
  (void)a; (void)av; (void)variance;
  vf_reach(name);
}
extern "C" void c19_online_average() { statistic<OnlineAverage>("OnlineAverage", false); }
extern "C" void c19_online_variance() { statistic<OnlineVariance>("OnlineVariance", true); }

// RateMonitoring has no mutex of its own: every non-atomic shared access is unprotected
extern "C" void c19_rate_monitoring()
{
  RateMonitoring rm(2.0);
  long long t = 0;
  for (int k = 0; k < 6; ++k) {t += 100000000; rm.update(durationFromNanoSecond(t));}
  vf_watch(&rm, sizeof(rm), &rm.mutex_, "RateMonitoring");
  long long dt = vf_i64("dt");
  vf_assume(dt >= 1000);
  vf_assume(dt <= 2000000000LL);
  vf_thread(1, "update");
  rm.update(durationFromNanoSecond(t + dt));
  vf_thread(2, "getRate");
  double r = rm.getRate();
  vf_thread(2, "timeout");
  bool to = rm.timeout(durationFromNanoSecond(t + dt + 1000));
  vf_watch_end();
  (void)r; (void)to;
  vf_reach("rate_monitoring");
}

template<class CK>
static void checkup(const char * name)
{
  CK c("quantity", 1.0, 0.1, Diagnostic());
  c.evaluate(1.0);
  vf_watch(&c, sizeof(c), &c.mutex_, name);
  double v = vf_f64("v");
  vf_assume((v >= -1e6) & (v <= 1e6));
  vf_thread(1, "evaluate");
  DiagnosticStatus s = c.evaluate(v);
  vf_thread(2, "getReport+copy");
  DiagnosticReport copy = c.getReport();
  vf_thread(1, "timeout");
  c.timeout();
  vf_watch_end();
  (void)s;
  vf_check(copy.diagnostics.size() == 1, "copy-has-one-diagnostic");
  vf_reach(name);
}
extern "C" void c19_checkup_equal_to() { checkup<CheckupEqualTo<double>>("CheckupEqualTo"); }
extern "C" void c19_checkup_greater_than() { checkup<CheckupGreaterThan<double>>("CheckupGreaterThan"); }
extern "C" void c19_checkup_lower_than() { checkup<CheckupLowerThan<double>>("CheckupLowerThan"); }

extern "C" void c19_checkup_reliability()
{
  CheckupReliability c("reliability", 0.3, 0.7);
  c.evaluate(0.5);
  vf_watch(&c, sizeof(c), &c.mutex_, "CheckupReliability");
  double v = vf_f64("v");
  vf_assume((v >= 0) & (v <= 1));
  vf_thread(1, "evaluate");
  c.evaluate(v);
  vf_thread(2, "getReport");
  DiagnosticReport copy = c.getReport();
  vf_watch_end();
  vf_check(copy.diagnostics.size() == 1, "copy-has-one-diagnostic");
  vf_reach("CheckupReliability");
}

extern "C" void c19_checkup_rate()
{
  CheckupRate<CheckupEqualTo<double>> c("sensor", 2.0, 0.5);
  long long t = 0;
  for (int k = 0; k < 6; ++k) {t += 500000000; c.evaluate(durationFromNanoSecond(t));}
  vf_watch(&c, sizeof(c), &c.mutex_, "CheckupRate");
  long long dt = vf_i64("dt");
  vf_assume(dt >= 1000);
  vf_assume(dt <= 2000000000LL);
  vf_thread(1, "evaluate");
  c.evaluate(durationFromNanoSecond(t + dt));
  vf_thread(2, "getReport");
  DiagnosticReport copy = c.getReport();
  vf_thread(3, "heartBeatCallback");
  bool alive = c.heartBeatCallback(durationFromNanoSecond(t + dt + 1000));
  vf_watch_end();
  (void)alive;
  vf_check(copy.diagnostics.size() == 1, "copy-has-one-diagnostic");
  vf_reach("CheckupRate");
}
