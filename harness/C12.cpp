// C12 — analytic derivatives match the maps they describe
#include "vf.h"
#include <cmath>
#include <Eigen/Geometry>
#include "romea_core_common/transform/SmartRotation3D.hpp"
using namespace romea::core;

static const char * ANG[3] = {"ax", "ay", "az"};
static const char * IDS[3][9] = {
  {"dRdX(0,0)", "dRdX(1,0)", "dRdX(2,0)", "dRdX(0,1)", "dRdX(1,1)", "dRdX(2,1)", "dRdX(0,2)", "dRdX(1,2)", "dRdX(2,2)"},
  {"dRdY(0,0)", "dRdY(1,0)", "dRdY(2,0)", "dRdY(0,1)", "dRdY(1,1)", "dRdY(2,1)", "dRdY(0,2)", "dRdY(1,2)", "dRdY(2,2)"},
  {"dRdZ(0,0)", "dRdZ(1,0)", "dRdZ(2,0)", "dRdZ(0,1)", "dRdZ(1,1)", "dRdZ(2,1)", "dRdZ(0,2)", "dRdZ(1,2)", "dRdZ(2,2)"}};
static const char * IDT[3][3] = {{"dRTdX(0)", "dRTdX(1)", "dRTdX(2)"}, {"dRTdY(0)", "dRTdY(1)", "dRTdY(2)"}, {"dRTdZ(0)", "dRTdZ(1)", "dRTdZ(2)"}};

// reported dR/d(angle k) (i,j)  ==  derivative of the reported R(i,j) w.r.t. that angle
extern "C" void c12_rotation_derivatives()
{
  double a[3];
  a[0] = vf_angle("ax", -M_PI, M_PI);
  a[1] = vf_angle("ay", -(M_PI / 2 - 0.05), M_PI / 2 - 0.05);
  a[2] = vf_angle("az", -M_PI, M_PI);
  SmartRotation3D rot(a[0], a[1], a[2]);
  const Eigen::Matrix3d R = rot.R();
  const Eigen::Matrix3d * dR[3] = {&rot.dRdAngleAroundXAxis(), &rot.dRdAngleAroundYAxis(), &rot.dRdAngleAroundZAxis()};
  Eigen::Vector3d T(vf_f64("tx"), vf_f64("ty"), vf_f64("tz"));
  for (int i = 0; i < 3; ++i) {vf_assume((T[i] <= 1e3) & (T[i] >= -1e3));}
  const Eigen::Vector3d RT = rot * T;
  const Eigen::Matrix3d dRT = rot.dRTdAngles(T);
  for (int k = 0; k < 3; ++k) {
    Eigen::Matrix3d truth;
    Eigen::Vector3d truthT;
    if (vf_symbolic()) {
      for (int e = 0; e < 9; ++e) {truth.data()[e] = vf_d(R.data()[e], ANG[k]);}
      for (int e = 0; e < 3; ++e) {truthT[e] = vf_d(RT[e], ANG[k]);}
    } else {
      const double s = 1e-6;
      double p[3] = {a[0], a[1], a[2]}, m[3] = {a[0], a[1], a[2]};
      p[k] += s;
      m[k] -= s;
      SmartRotation3D rp(p[0], p[1], p[2]), rm(m[0], m[1], m[2]);
      truth = (rp.R() - rm.R()) / (2 * s);
      truthT = (rp * T - rm * T) / (2 * s);
    }
    for (int e = 0; e < 9; ++e) {
      vf_check(vf_near(dR[k]->data()[e], truth.data()[e], 1e-6), IDS[k][e]);
    }
    for (int e = 0; e < 3; ++e) {
      vf_check(vf_near(dRT(e, k), truthT[e], 1e-6), IDT[k][e]);
    }
  }
  vf_reach("rotation_derivatives");
}

// least-squares covariance (third clause of C12): the entries of C07's harness are reused
#include "C07.cpp"
