// C03 — Lambert conformal conic projection
#include "vf.h"
#include <cmath>
#include "romea_core_common/geodesy/LambertConverter.hpp"
using namespace romea::core;

static const double DEG = M_PI / 180.0;

static double ecc()
{
  double e = vf_f64("e");
  vf_assume((e >= 0) & (e <= 0.1));
  return e;
}

// d(isometric latitude)/d(latitude) == (1 - e^2) / ((1 - e^2 sin^2 lat) cos lat)  — the conformality condition
extern "C" void c03_isometric_derivative()
{
  const double e = ecc();
  const double lat = vf_angle("lat", -83 * DEG, 83 * DEG);
  const double L = LambertConverter::computeIsometricLatitude(lat, e);
  double dL;
  if (vf_symbolic()) {
    dL = vf_d(L, "lat");
  } else {
    const double s = 1e-6;
    dL = (LambertConverter::computeIsometricLatitude(lat + s, e) - LambertConverter::computeIsometricLatitude(lat - s, e)) / (2 * s);
  }
  const double sl = std::sin(lat), cl = std::cos(lat);
  vf_check(vf_near(dL, (1 - e * e) / ((1 - e * e * sl * sl) * cl), 1e-6), "isometric-latitude-derivative-is-M-over-N-cos-lat");
  vf_reach("isometric_derivative");
}

// forward map from symbolic projection constants: local scale equal along meridian and parallel, partials orthogonal,
// central meridian on x = xs
extern "C" void c03_conformal()
{
  const double e = ecc();
  const double n = vf_f64("n"), c = vf_f64("c"), xs = vf_f64("xs"), ys = vf_f64("ys"), lon0 = vf_f64("lon0");
  vf_assume((((n >= 0.2) & (n <= 1)) | ((n <= -0.2) & (n >= -1))) & (c != 0));
  LambertConverter conv(lon0, n, c, xs, ys, e);
  const double lat = vf_angle("lat", -83 * DEG, 83 * DEG), lon = vf_f64("lon");
  WGS84Coordinates w;
  w.latitude = lat;
  w.longitude = lon;
  Eigen::Vector2d p = conv.toLambert(w);
  double xlat, ylat, xlon, ylon;
  if (vf_symbolic()) {
    xlat = vf_d(p[0], "lat"); ylat = vf_d(p[1], "lat"); xlon = vf_d(p[0], "lon"); ylon = vf_d(p[1], "lon");
  } else {
    const double s = 1e-6;
    WGS84Coordinates a = w, b = w;
    a.latitude += s; b.latitude -= s;
    Eigen::Vector2d d1 = (conv.toLambert(a) - conv.toLambert(b)) / (2 * s);
    a = w; b = w;
    a.longitude += s; b.longitude -= s;
    Eigen::Vector2d d2 = (conv.toLambert(a) - conv.toLambert(b)) / (2 * s);
    xlat = d1[0]; ylat = d1[1]; xlon = d2[0]; ylon = d2[1];
  }
  const double scale = std::fabs(c) + 1;
  vf_check(vf_near((xlat * xlon + ylat * ylon) / (scale * scale), 0.0, 1e-6), "meridian-and-parallel-images-are-orthogonal");
  // h = |d/dlat| / M , k = |d/dlon| / (N cos lat); h == k  <=>  |d/dlat|^2 (N cos lat)^2 == |d/dlon|^2 M^2
  const double sl = std::sin(lat), cl = std::cos(lat), w2 = 1 - e * e * sl * sl;
  const double ratio = (1 - e * e) / (w2 * cl);          // M / (N cos lat)
  vf_check(vf_near((xlat * xlat + ylat * ylat) / (scale * scale), ratio * ratio * (xlon * xlon + ylon * ylon) / (scale * scale), 1e-5),
    "scale-along-meridian-equals-scale-along-parallel");
  w.longitude = lon0;
  Eigen::Vector2d m = conv.toLambert(w);
  vf_check(vf_eq(m[0], xs), "central-meridian-maps-to-x-equals-xs");
  vf_reach("conformal");
}

static EarthEllipsoid ellipsoid(double e)
{
  EarthEllipsoid el(6378137.0, 6356752.314);
  double a = vf_f64("a");
  vf_assume((a >= 6.3e6) & (a <= 6.4e6));
  el.a = a;
  el.e = e;
  el.e2 = e * e;
  return el;
}

// tangent cone: scale k0 on the tangent parallel, origin maps to the false origin
extern "C" void c03_tangent()
{
  const double e = ecc();
  EarthEllipsoid el = ellipsoid(e);
  LambertConverter::TangentProjectionParameters tp;
  tp.latitude0 = vf_angle("lat0", 15 * DEG, 75 * DEG);
  tp.longitude0 = vf_f64("lon0");
  tp.k0 = vf_f64("k0");
  vf_assume((tp.k0 >= 0.99) & (tp.k0 <= 1));
  tp.x0 = vf_f64("x0");
  tp.y0 = vf_f64("y0");
  // the public constructor (it computes the projection constants and forwards the eccentricity)
  LambertConverter conv(tp, el);
  LambertConverter::ProjectionParameters pp;
  pp.n = conv.n_; pp.c = conv.c_; pp.xs = conv.xs_; pp.ys = conv.ys_; pp.longitude0 = conv.longitude0_;
  WGS84Coordinates w;
  w.latitude = tp.latitude0;
  w.longitude = tp.longitude0;
  Eigen::Vector2d o = conv.toLambert(w);
  vf_check(vf_near(o[0], tp.x0, 1e-9) & vf_near(o[1], tp.y0, 1e-9), "projection-origin-maps-to-the-false-origin");
  // scale on the tangent parallel: k = n * rho / (N cos lat0), rho = distance from the apex (xs, ys)
  const double rho = std::sqrt((o[0] - pp.xs) * (o[0] - pp.xs) + (o[1] - pp.ys) * (o[1] - pp.ys));
  const double N = LambertConverter::computeGrandeNormal(tp.latitude0, el.a, e);
  vf_check(vf_near(pp.n * rho / (N * std::cos(tp.latitude0)), tp.k0, 1e-9), "scale-on-the-tangent-parallel-is-k0");
  vf_reach("tangent");
}

// secant cone: origin maps to the false origin, scale 1 on the first standard parallel
extern "C" void c03_secant()
{
  const double e = ecc();
  EarthEllipsoid el = ellipsoid(e);
  LambertConverter::SecantProjectionParameters sp;
  const int south = (int)vf_param("south");
  sp.latitude0 = south ? vf_angle("lat0", -75 * DEG, -15 * DEG) : vf_angle("lat0", 15 * DEG, 75 * DEG);
  sp.latitude1 = south ? vf_angle("lat1", -75 * DEG, -15 * DEG) : vf_angle("lat1", 15 * DEG, 75 * DEG);
  sp.latitude2 = south ? vf_angle("lat2", -75 * DEG, -15 * DEG) : vf_angle("lat2", 15 * DEG, 75 * DEG);
  vf_assume((sp.latitude2 - sp.latitude1 >= 1 * DEG) & (sp.latitude2 - sp.latitude1 <= 20 * DEG));
  sp.longitude0 = vf_f64("lon0");
  sp.x0 = vf_f64("x0");
  sp.y0 = vf_f64("y0");
  LambertConverter conv(sp, el);
  LambertConverter::ProjectionParameters pp;
  pp.n = conv.n_; pp.c = conv.c_; pp.xs = conv.xs_; pp.ys = conv.ys_; pp.longitude0 = conv.longitude0_;
  WGS84Coordinates w;
  w.latitude = sp.latitude0;
  w.longitude = sp.longitude0;
  Eigen::Vector2d o = conv.toLambert(w);
  vf_check(vf_near(o[0], sp.x0, 1e-9) & vf_near(o[1], sp.y0, 1e-9), "projection-origin-maps-to-the-false-origin");
  w.latitude = sp.latitude1;
  Eigen::Vector2d p1 = conv.toLambert(w);
  const double rho1 = std::sqrt((p1[0] - pp.xs) * (p1[0] - pp.xs) + (p1[1] - pp.ys) * (p1[1] - pp.ys));
  const double N1 = LambertConverter::computeGrandeNormal(sp.latitude1, el.a, e);
  if (vf_symbolic()) vf_assume(pp.n != 0);   // cone constant of distinct standard parallels: monotonicity of N cos(lat), outside the log abstraction
  vf_check(vf_near(std::fabs(pp.n) * rho1 / (N1 * std::cos(sp.latitude1)), 1.0, 1e-9), "scale-is-1-on-the-first-standard-parallel");
  vf_reach("secant");
}

// inverse: with the latitude iteration abstracted by its last step, the true latitude is a fixed point
extern "C" void c03_inverse_latitude()
{
  const double e = ecc();
  const double lat = vf_angle("lat", -83 * DEG, 83 * DEG);
  const double L = LambertConverter::computeIsometricLatitude(lat, e);
  vf_havoc_is(0, lat);
  const double back = LambertConverter::computeLatitude(L, e);
  if (vf_symbolic()) {
    vf_check(vf_angle_eq(back, lat), "true-latitude-is-a-fixed-point-of-the-inverse-iteration");
  } else {
    vf_check(vf_near(back, lat, 1e-11), "inverse-latitude-within-1e-11");
  }
  vf_reach("inverse_latitude");
}

// inverse map of a projected point is defined (no log of a non-positive number, no division by zero) for cones of either
// hemisphere: the constructor's constants have the sign pattern computeProjectionParameters produces (c and n of equal sign)
extern "C" void c03_inverse_defined()
{
  const double e = ecc();
  const double n = vf_f64("n"), c = vf_f64("c"), xs = vf_f64("xs"), ys = vf_f64("ys"), lon0 = vf_f64("lon0");
  const int south = (int)vf_param("south");
  if (south) vf_assume((n <= -0.2) & (n >= -1) & (c <= -1e6) & (c >= -1e8));
  else vf_assume((n >= 0.2) & (n <= 1) & (c >= 1e6) & (c <= 1e8));
  vf_assume((xs >= -1e7) & (xs <= 1e7) & (ys >= -1e8) & (ys <= 1e8) & (lon0 >= -3.2) & (lon0 <= 3.2));
  LambertConverter conv(lon0, n, c, xs, ys, e);
  WGS84Coordinates w;
  w.latitude = south ? vf_angle("lat", -75 * DEG, -15 * DEG) : vf_angle("lat", 15 * DEG, 75 * DEG);
  const double dlon = vf_f64("dlon");
  vf_assume((dlon >= -0.5) & (dlon <= 0.5));
  w.longitude = lon0 + dlon;
  Eigen::Vector2d p = conv.toLambert(w);
  WGS84Coordinates b = conv.toWGS84(p);
  vf_check(vf_near(b.latitude, b.latitude, 1.0), "inverse-returns-a-number");
  vf_reach("inverse_defined");
}

// inverse longitude: for cone constants n = +-1/2, +-3/4 (so that n * dlon stays linear over the angle atoms) and c of the
// same sign, toWGS84(toLambert(lat, lon0 + dlon)).longitude == lon0 + dlon
extern "C" void c03_inverse_longitude()
{
  const double e = ecc();
  const double n = vf_paramf("n");
  const double c = vf_f64("c"), xs = vf_f64("xs"), ys = vf_f64("ys");
  if (n < 0) vf_assume((c <= -1e6) & (c >= -1e8));
  else vf_assume((c >= 1e6) & (c <= 1e8));
  vf_assume((xs >= -1e7) & (xs <= 1e7) & (ys >= -1e8) & (ys <= 1e8));
  const double lon0 = vf_angle("lon0", -M_PI, M_PI);
  LambertConverter conv(lon0, n, c, xs, ys, e);
  WGS84Coordinates w;
  w.latitude = n < 0 ? vf_angle("lat", -75 * DEG, -15 * DEG) : vf_angle("lat", 15 * DEG, 75 * DEG);
  const double dlon = vf_angle("dlon", -0.55, 0.55);
  w.longitude = lon0 + dlon;
  Eigen::Vector2d p = conv.toLambert(w);
  WGS84Coordinates b = conv.toWGS84(p);
  vf_check(vf_angle_eq(b.longitude, w.longitude), "inverse-returns-the-longitude");
  vf_reach("inverse_longitude");
}

// full round trip on concrete zones (executed concretely; symbolically only definedness is collected)
extern "C" void c03_round_trip()
{
  const double e = vf_paramf("e");
  EarthEllipsoid el(6378137.0, 6356752.314);
  el.e = e;
  el.e2 = e * e;
  LambertConverter::SecantProjectionParameters sp;
  sp.latitude0 = vf_paramf("lat0"); sp.latitude1 = vf_paramf("lat1"); sp.latitude2 = vf_paramf("lat2");
  sp.longitude0 = vf_paramf("lon0"); sp.x0 = 700000; sp.y0 = 6600000;
  LambertConverter conv(sp, el);
  WGS84Coordinates w;
  w.latitude = vf_f64("lat");
  w.longitude = vf_f64("lon");
  vf_assume((w.latitude - sp.latitude0 <= 8 * DEG) & (w.latitude - sp.latitude0 >= -8 * DEG) & (w.longitude - sp.longitude0 <= 30 * DEG) &
    (w.longitude - sp.longitude0 >= -30 * DEG));
  Eigen::Vector2d p = conv.toLambert(w);
  WGS84Coordinates b = conv.toWGS84(p);
  vf_check(vf_near(b.latitude, w.latitude, 1e-11) & vf_near(b.longitude, w.longitude, 1e-11), "inverse-returns-latitude-and-longitude");
  vf_reach("round_trip");
}
