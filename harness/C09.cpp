// C09 — surface normals and curvature (neighbour search and eigen-solver by contract)
#include "vf.h"
#include "vfnames.h"
#include <cmath>
#include "romea_core_common/pointset/algorithms/NormalAndCurvatureEstimation.hpp"
using namespace romea::core;

static const char * PX[64] = {VF_N64("p")};

template<class P> struct Dim;
template<> struct Dim<Eigen::Vector2d> { static const int D = 2; };
template<> struct Dim<Eigen::Vector3d> { static const int D = 3; };
template<> struct Dim<HomogeneousCoordinates2d> { static const int D = 2; };
template<> struct Dim<HomogeneousCoordinates3d> { static const int D = 3; };

template<class P>
static P mk(const double * v)
{
  if constexpr (Dim<P>::D == 2) {
    return P(v[0], v[1]);
  } else {
    return P(v[0], v[1], v[2]);
  }
}

// the cloud is exactly the neighbourhood (k points, k neighbours): every normal is estimated from all k points
template<class P>
static void normals()
{
  const int D = Dim<P>::D, k = (int)vf_param("k"), planar = (int)vf_param("planar");
  double x[8][3];
  PointSet<P> pts;
  double n0[3] = {0, 0, 0}, off = 0;
  if (planar) {
    // points on the plane / line  n0 . p = off  (unit n0, off != 0: not through the origin)
    double nn = 0;
    static const char * NN[3] = {"n0", "n1", "n2"};
    for (int d = 0; d < D; ++d) {n0[d] = vf_f64(NN[d]); nn += n0[d] * n0[d];}
    vf_assume(nn == 1);
    off = vf_f64("off");
    vf_assume((off >= 0.5) | (off <= -0.5));
  }
  for (int i = 0; i < k; ++i) {
    double dot = 0;
    for (int d = 0; d < D; ++d) {
      x[i][d] = vf_f64(PX[3 * i + d]);
      vf_assume((x[i][d] <= 100) & (x[i][d] >= -100));
      dot += n0[d] * x[i][d];
    }
    if (planar) {vf_assume(dot == off);}
    pts.push_back(mk<P>(x[i]));
  }
  NormalAndCurvatureEstimation<P> est(k);
  NormalSet<P> nrm(k);
  std::vector<double> curv(k);
  est.compute(pts, nrm, curv);
  // oracle covariance of the neighbourhood (two passes)
  double mean[3] = {0, 0, 0}, C[3][3];
  for (int i = 0; i < k; ++i) {
    for (int d = 0; d < D; ++d) {mean[d] += x[i][d];}
  }
  for (int d = 0; d < D; ++d) {mean[d] /= k;}
  double trace = 0;
  for (int a = 0; a < D; ++a) {
    for (int b = 0; b < D; ++b) {
      C[a][b] = 0;
      for (int i = 0; i < k; ++i) {C[a][b] += (x[i][a] - mean[a]) * (x[i][b] - mean[b]);}
      C[a][b] /= k;
    }
    trace += C[a][a];
  }
  vf_assume(trace >= 1e-6);      // not a single repeated point
  const int q = (int)vf_param("point");
  double nv[3], norm2 = 0, facing = 0;
  for (int d = 0; d < D; ++d) {
    nv[d] = nrm[q][d];
    norm2 += nv[d] * nv[d];
    facing += nv[d] * x[q][d];
  }
  vf_check(vf_eq(norm2, 1.0), "normal-has-unit-length");
  vf_check(facing <= 0, "normal-points-toward-the-sensor-origin");
  // direction of least variance of the neighbours: C n = l_min n with l_min = curvature * trace, l_min the smallest eigenvalue
  const double lmin = curv[q] * trace;
  for (int a = 0; a < D; ++a) {
    double cn = 0;
    for (int b = 0; b < D; ++b) {cn += C[a][b] * nv[b];}
    vf_check(vf_eq(cn, lmin * nv[a]), "normal-is-an-eigenvector-of-the-neighbourhood-covariance");
  }
  // least variance: for any unit direction u, u^T C u >= l_min
  double u[3], uu = 0, uCu = 0;
  static const char * UN[3] = {"u0", "u1", "u2"};
  for (int d = 0; d < D; ++d) {u[d] = vf_f64(UN[d]); uu += u[d] * u[d];}
  vf_assume(uu == 1);
  for (int a = 0; a < D; ++a) {
    for (int b = 0; b < D; ++b) {uCu += u[a] * C[a][b] * u[b];}
  }
  vf_check(uCu >= lmin - 1e-9 * (1 + trace), "normal-is-the-direction-of-least-variance");
  vf_check((curv[q] >= -1e-12) & (curv[q] <= 1.0 / D + 1e-12), "curvature-in-[0,1/DIM]");
  if (planar) {
    vf_check(vf_near(curv[q], 0.0, 1e-9), "planar-cloud-has-zero-curvature");
    double cross = 0;
    if (D == 2) {
      cross = nv[0] * n0[1] - nv[1] * n0[0];
      vf_check(vf_near(cross, 0.0, 1e-7), "planar-cloud-normal-is-the-surface-normal");
    } else {
      vf_check(vf_near(nv[1] * n0[2] - nv[2] * n0[1], 0.0, 1e-7) & vf_near(nv[2] * n0[0] - nv[0] * n0[2], 0.0, 1e-7) &
        vf_near(nv[0] * n0[1] - nv[1] * n0[0], 0.0, 1e-7), "planar-cloud-normal-is-the-surface-normal");
    }
  }
  vf_reach("normals");
}
extern "C" void c09_v2d() { normals<Eigen::Vector2d>(); }
extern "C" void c09_v3d() { normals<Eigen::Vector3d>(); }
extern "C" void c09_h2d() { normals<HomogeneousCoordinates2d>(); }
extern "C" void c09_h3d() { normals<HomogeneousCoordinates3d>(); }
