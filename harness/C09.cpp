// C09 — surface normals and curvature (neighbour search and eigen-solver by contract)
#include "vf.h"
#include "vfnames.h"
#include <cmath>
#include "romea_core_common/pointset/algorithms/NormalAndCurvatureEstimation.hpp"
using namespace romea::core;

static const char * PX[64] = {VF_N64("p")};

template<class P> struct Dim;
template<> struct Dim<Eigen::Vector2d> { static const int D = 2; };
template<> struct Dim<Eigen::Vector3d> { static const int D = 3; };
template<> struct Dim<HomogeneousCoordinates2d> { static const int D = 2; };
template<> struct Dim<HomogeneousCoordinates3d> { static const int D = 3; };

template<class P>
static P mk(const double * v)
{
  if constexpr (Dim<P>::D == 2) {
    return P(v[0], v[1]);
  } else {
    return P(v[0], v[1], v[2]);
  }
}

// the cloud is exactly the neighbourhood (k points, k neighbours): every normal is estimated from all k points
template<class P>
static void normals()
{
  const int D = Dim<P>::D, k = (int)vf_param("k"), planar = (int)vf_param("planar");
  double x[8][3];
  PointSet<P> pts;
  double n0[3] = {0, 0, 0}, off = 0;
  if (planar) {
    // points on the plane / line  n0 . p = off  (unit n0, off != 0: not through the origin)
    double nn = 0;
    static const char * NN[3] = {"n0", "n1", "n2"};
    for (int d = 0; d < D; ++d) {n0[d] = vf_f64(NN[d]); nn += n0[d] * n0[d];}
    vf_assume(nn == 1);
    off = vf_f64("off");
    vf_assume((off >= 0.5) | (off <= -0.5));
  }
  const double lim = vf_symbolic() ? 100 : 1e7;     // concrete vectors may sit in a map frame
  for (int i = 0; i < k; ++i) {
    double dot = 0;
    for (int d = 0; d < D; ++d) {
      x[i][d] = vf_f64(PX[3 * i + d]);
      vf_assume((x[i][d] <= lim) & (x[i][d] >= -lim));
      dot += n0[d] * x[i][d];
    }
    if (planar) {vf_assume(dot == off);}
    pts.push_back(mk<P>(x[i]));
  }
  NormalAndCurvatureEstimation<P> est(k);
  NormalSet<P> nrm(k);
  std::vector<double> curv(k), rel(k);
  const int overload = (int)vf_param("overload");     // 0: normals + curvatures, 1: normals only, 2: + reliabilities
  if (overload == 0) {
    est.compute(pts, nrm, curv);
  } else if (overload == 1) {
    est.compute(pts, nrm);
  } else {
    est.compute(pts, nrm, curv, rel);
  }
  // oracle covariance of the neighbourhood (two passes)
  double mean[3] = {0, 0, 0}, C[3][3];
  for (int i = 0; i < k; ++i) {
    for (int d = 0; d < D; ++d) {mean[d] += x[i][d];}
  }
  for (int d = 0; d < D; ++d) {mean[d] /= k;}
  double trace = 0;
  for (int a = 0; a < D; ++a) {
    for (int b = 0; b < D; ++b) {
      C[a][b] = 0;
      for (int i = 0; i < k; ++i) {C[a][b] += (x[i][a] - mean[a]) * (x[i][b] - mean[b]);}
      C[a][b] /= k;
    }
    trace += C[a][a];
  }
  // cut point: the oracle covariance becomes fresh variables (shared with the matrix the code hands to the eigen-solver when
  // both are the same polynomial); facts about it that need its definition are proved once as lemmas
  for (int a = 0; a < D; ++a) {vf_cut(&C[a][0], D, "cov");}
  trace = 0;
  for (int a = 0; a < D; ++a) {trace += C[a][a];}
  for (int a = 0; a < D; ++a) {
    vf_lemma(C[a][a] >= 0, "oracle-covariance-diagonal-nonnegative");
    for (int b = a + 1; b < D; ++b) {
      vf_lemma(vf_eq(C[a][b], C[b][a]), "oracle-covariance-symmetric");
      vf_lemma(C[a][a] * C[b][b] - C[a][b] * C[a][b] >= 0, "oracle-covariance-2x2-minor-nonnegative");
    }
  }
  vf_assume(trace >= 1e-6);      // not a single repeated point
  const int q = (int)vf_param("point");
  double nv[3], norm2 = 0, facing = 0;
  for (int d = 0; d < D; ++d) {
    nv[d] = nrm[q][d];
    norm2 += nv[d] * nv[d];
    facing += nv[d] * x[q][d];
  }
  vf_check(vf_eq(norm2, 1.0), "normal-has-unit-length");
  vf_check(facing <= 0, "normal-points-toward-the-sensor-origin");
  // direction of least variance of the neighbours: C n = l_min n with l_min = curvature * trace, l_min the smallest eigenvalue
  double lmin = curv[q] * trace;
  if (overload == 1) {
    // no curvature output: the Rayleigh quotient of the returned normal stands for the eigenvalue
    lmin = 0;
    for (int a = 0; a < D; ++a) {
      for (int b = 0; b < D; ++b) {lmin += nv[a] * C[a][b] * nv[b];}
    }
    curv[q] = lmin / trace;
  }
  for (int a = 0; a < D; ++a) {
    double cn = 0;
    for (int b = 0; b < D; ++b) {cn += C[a][b] * nv[b];}
    vf_lemma(vf_eq(cn, lmin * nv[a]), "normal-is-an-eigenvector-of-the-neighbourhood-covariance");
  }
  // (concrete runs far from the origin: the two-pass covariance itself carries rounding of the order of 1e-8 there)
  const double ctol = vf_symbolic() ? 1e-12 : 1e-6;
  vf_lemma((curv[q] >= -ctol) & (curv[q] <= 1.0 / D + ctol), "curvature-in-[0,1/DIM]");
  // least variance: for any unit direction u, u^T C u >= l_min
  double u[3], uu = 0, uCu = 0;
  static const char * UN[3] = {"u0", "u1", "u2"};
  for (int d = 0; d < D; ++d) {u[d] = vf_f64(UN[d]); uu += u[d] * u[d];}
  vf_assume(uu == 1);
  for (int a = 0; a < D; ++a) {
    for (int b = 0; b < D; ++b) {uCu += u[a] * C[a][b] * u[b];}
  }
  if (D == 2) {
    // helping lemmas (each proved, then assumed): the tangent is the other eigenvector, so the quadratic form is diagonal in
    // the (normal, tangent) basis.  The coordinates, both eigenvalues and the quadratic form are then cut (fresh variables,
    // definitions aside) so that the last step is a six-variable query
    const double t0 = -nv[1], t1 = nv[0];
    double l1 = trace - lmin;
    vf_lemma(vf_near(C[0][0] * t0 + C[0][1] * t1, l1 * t0, 1e-7) & vf_near(C[1][0] * t0 + C[1][1] * t1, l1 * t1, 1e-7), "tangent-is-the-other-eigenvector");
    double ca = u[0] * nv[0] + u[1] * nv[1], cb = u[0] * t0 + u[1] * t1;
    vf_lemma(vf_near(uCu, ca * ca * lmin + cb * cb * l1, 1e-7), "quadratic-form-in-the-eigenbasis");
    vf_cut(&ca, 1, "ca"); vf_cut(&cb, 1, "cb"); vf_cut(&l1, 1, "l1"); vf_cut(&lmin, 1, "lmin"); vf_cut(&uCu, 1, "uCu"); vf_cut(&trace, 1, "trace");
    vf_lemma(vf_near(ca * ca + cb * cb, 1.0, 1e-7), "unit-direction-in-the-eigenbasis");
    vf_lemma(vf_near(uCu, ca * ca * lmin + cb * cb * l1, 1e-7), "quadratic-form-in-the-eigenbasis");
    double cq = curv[q];
    vf_cut(&cq, 1, "curv");
    vf_lemma(vf_near(lmin, cq * trace, 1e-9), "cut-lmin-is-curvature-times-trace");
    vf_lemma(cq <= 0.5 + 1e-12, "cut-curvature-bound");
    vf_lemma(vf_near(l1, trace - lmin, 1e-9), "cut-l1-is-trace-minus-lmin");
    vf_lemma(trace >= 0, "trace-nonnegative");
    vf_lemma(l1 >= lmin - 1e-11 * (1 + trace), "other-eigenvalue-is-not-smaller");
  }
  vf_check(uCu >= lmin - 1e-9 * (1 + trace), "normal-is-the-direction-of-least-variance");
  if (planar) {
    vf_check(vf_near(curv[q], 0.0, 1e-9), "planar-cloud-has-zero-curvature");
    double cross = 0;
    if (D == 2) {
      cross = nv[0] * n0[1] - nv[1] * n0[0];
      vf_check(vf_near(cross, 0.0, 1e-7), "planar-cloud-normal-is-the-surface-normal");
    } else {
      vf_check(vf_near(nv[1] * n0[2] - nv[2] * n0[1], 0.0, 1e-7) & vf_near(nv[2] * n0[0] - nv[0] * n0[2], 0.0, 1e-7) &
        vf_near(nv[0] * n0[1] - nv[1] * n0[0], 0.0, 1e-7), "planar-cloud-normal-is-the-surface-normal");
    }
  }
  vf_reach("normals");
}
extern "C" void c09_v2d() { normals<Eigen::Vector2d>(); }
extern "C" void c09_v3d() { normals<Eigen::Vector3d>(); }
extern "C" void c09_h2d() { normals<HomogeneousCoordinates2d>(); }
extern "C" void c09_h3d() { normals<HomogeneousCoordinates3d>(); }
