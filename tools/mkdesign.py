#!/usr/bin/env python3
"""Regenerates the generated blocks of DESIGN.md (between <!-- BEGIN:x --> / <!-- END:x --> markers) from the check modules,
the seeded-change records, the known-findings file and the last evidence files."""
import os, sys, json, importlib, re
ROOT = os.path.dirname(os.path.dirname(os.path.abspath(__file__)))
sys.path.insert(0, ROOT)
props = {}
for l in open(os.path.join(ROOT, "properties.jsonl")):
    d = json.loads(l)
    props[d["id"]] = d


def claims():
    out = []
    for pid in sorted(props):
        path = os.path.join(ROOT, "checks", pid + ".py")
        if not os.path.exists(path):
            continue
        m = importlib.import_module("checks." + pid)
        out.append("### %s — %s\n" % (pid, props[pid]["title"]))
        out.append("*Harness* `harness/%s`, repo units encoded: %s.\n" % (m.HARNESS, ", ".join("`%s`" % s for s in m.SOURCES)))
        out.append("*Claim.* %s\n" % getattr(m, "CLAIM", ""))
        b = getattr(m, "BOUNDS", {})
        if b:
            out.append("*Bounds.* quick: %s. thorough: %s.\n" % (b.get("quick", "-"), b.get("thorough", "-")))
        a = getattr(m, "ASSUMPTIONS", [])
        if a:
            out.append("*Assumptions / stubs / contracts.* " + "; ".join(a) + ".\n")
        o = getattr(m, "OUTSIDE", [])
        if o:
            out.append("*Outside the claim.* " + "; ".join(o) + ".\n")
        ev = os.path.join(ROOT, "evidence", pid + ".json")
        if os.path.exists(ev):
            e = json.load(open(ev))
            c = e["coverage"]
            out.append("*Last %s run on the tree as committed.* %d obligations on %d paths: %d discharged, %d unknown, %d unconfirmed, "
                       "%d known findings, %d violated; %d/%d translation-validation vectors agree; %.0f s wall.\n" % (
                           e.get("tier"), c.get("obligations", 0), c.get("states", 0), c.get("discharged", 0), c.get("unknown", 0),
                           c.get("unconfirmed", 0), c.get("known_findings", 0), c.get("violated", 0),
                           c.get("translation_validation", {}).get("agree", 0), c.get("translation_validation", {}).get("vectors", 0),
                           e.get("wall_s", 0)))
    return "\n".join(out)


def seeds():
    rows = ["| seed | property | detected | by | what it needs |", "|---|---|---|---|---|"]
    base = os.path.join(ROOT, "seeded")
    for d in sorted(os.listdir(base)):
        mp = os.path.join(base, d, "meta.json")
        if not os.path.exists(mp):
            continue
        m = json.load(open(mp))
        det = m.get("detected")
        det = "yes" if det is True else ("NO" if det is False else str(det))
        rows.append("| %s | %s | %s | %s | %s |" % (d, m.get("property"), det, "; ".join(m.get("by", [])).replace("|", "/"),
                                                 m.get("needs", "").replace("|", "/")))
    return "\n".join(rows)


def findings():
    kf = json.load(open(os.path.join(ROOT, "known_findings.json")))
    rows = []
    for k in kf:
        rows.append("* **%s** (%s%s): %s" % (k["property"], k.get("status"), " " + k["commit"] if k.get("commit") else "",
                                          re.sub(r"^fixed: property=\S+ \S+ ", "", k.get("what", ""))))
    return "\n".join(rows)


def main():
    p = os.path.join(ROOT, "DESIGN.md")
    s = open(p).read()
    for name, fn in (("claims", claims), ("seeds", seeds), ("findings", findings)):
        a, b = "<!-- BEGIN:%s -->" % name, "<!-- END:%s -->" % name
        if a in s and b in s:
            i, j = s.index(a) + len(a), s.index(b)
            s = s[:i] + "\n" + fn() + "\n" + s[j:]
    open(p, "w").write(s)
    print("DESIGN.md regenerated")


main()
