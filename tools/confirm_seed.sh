#!/bin/sh
# usage: confirm_seed.sh <worktree> <pid>  — re-confirms a seeded change: builds, ctest with the change, demo with/without
WT=$1; P=$2
cd $WT || exit 2
BD=$(ls -d _build_* 2>/dev/null | head -1)
[ -z "$BD" ] && BD=_build_confirm && cmake -G Ninja -S . -B $BD -DCMAKE_BUILD_TYPE=RelWithDebInfo >/dev/null
git checkout -- include src; git apply patch.diff || exit 2
cmake --build $BD -j6 2>&1 | tail -1
echo "ctest(with change): $(ctest --test-dir $BD -j6 2>&1 | grep 'tests passed')"
CMD=$(grep -v '^#' demo_build.txt | grep "g++" | head -1)
sh -c "$CMD" >/dev/null 2>&1; ./demo_$P >/dev/null 2>&1; echo "demo with change: exit $?"
git checkout -- include src
[ -f $BD/libromea_core_common.so ] && echo "$CMD" | grep -q "libromea\|_build" && cmake --build $BD -j6 2>&1 | tail -1
sh -c "$CMD" >/dev/null 2>&1; ./demo_$P >/dev/null 2>&1; echo "demo original: exit $?"
git apply patch.diff
