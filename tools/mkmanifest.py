#!/usr/bin/env python3
"""Regenerates MANIFEST.json from the check modules under checks/."""
import os, sys, json, importlib
ROOT = os.path.dirname(os.path.dirname(os.path.abspath(__file__)))
sys.path.insert(0, ROOT)
props = [json.loads(l) for l in open(os.path.join(ROOT, "properties.jsonl"))]
NA = {}
checks = []
na = []
for p in props:
    pid = p["id"]
    path = os.path.join(ROOT, "checks", pid + ".py")
    if not os.path.exists(path) or pid in NA:
        na.append(dict(property_id=pid, reason=NA.get(pid, "check not built yet (work in progress)")))
        continue
    m = importlib.import_module("checks." + pid)
    if getattr(m, "DISABLED", None):
        na.append(dict(property_id=pid, reason=m.DISABLED))
        continue
    checks.append(dict(
        property_id=pid,
        quick_cmd="./check %s --tier quick" % pid,
        thorough_cmd="./check %s --tier thorough" % pid,
        evidence_file="evidence/%s.json" % pid,
        replay_cmd_template="./check %s --replay {path}" % pid,
        engine="vf",
        level_claimed=dict(category="model_checking",
                           text=getattr(m, "CLAIM", ""),
                           design_ref="DESIGN.md section 5 (%s)" % pid),
        level_note=getattr(m, "LEVEL_NOTE", "bounded symbolic execution of the clang -O1 IR of the real sources; every "
                           "obligation decided by z3/cvc5 for all values of the symbolic inputs inside the stated bounds; "
                           "trusted: interpreter + models (vf/), solvers, clang IR as semantics (checked per run by translation "
                           "validation against the g++ build); see evidence.assumptions"),
        technique=getattr(m, "TECHNIQUE", "symbolic execution of LLVM IR + SMT (z3 5.1 / z3 4.8 / cvc5 portfolio), native replay of counterexamples"),
    ))
man = dict(
    version=1,
    setup_cmd="true",
    hooks=dict(guard="ROMEA_CORE_COMMON_VERIF",
               enable="no source hooks are needed: harnesses are compiled with -fno-access-control against the unmodified sources",
               baseline_off_cmd="cd /repo && cmake --build _build && ctest --test-dir _build -j8 --timeout 900",
               source_commits=[], add_only=True),
    engines=[dict(name="vf", path="vf/", serves_properties=[c["property_id"] for c in checks],
                  kind_free_text="own symbolic interpreter of clang-14 LLVM IR (Python) with z3/cvc5 back ends; "
                                 "per-property C++ harness under harness/, bounds under checks/")],
    checks=checks,
    notes="fix: commits in /repo are listed in known_findings.json (fixed entries suppress nothing)",
    not_applicable=na,
)
json.dump(man, open(os.path.join(ROOT, "MANIFEST.json"), "w"), indent=1)
print("checks:", [c["property_id"] for c in checks], "n/a:", [n["property_id"] for n in na])
