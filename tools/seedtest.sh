#!/bin/sh
# usage: tools/seedtest.sh <Cxx> <patch.diff> [tier]   — applies the patch to /repo, runs the check, reverts
P=$1; PATCH=$2; TIER=${3:-quick}
cd /repo || exit 2
git apply --check "$PATCH" || { echo "patch does not apply"; exit 2; }
git apply "$PATCH"
cd /verif
timeout 1800 ./check $P --tier $TIER > /tmp/seed_$P.log 2>&1
RC=$?
cd /repo && git checkout -- include src
echo "exit=$RC"
grep -c "^VIOLATION" /tmp/seed_$P.log
grep "^VIOLATION\|violated:" /tmp/seed_$P.log | cut -c1-300 | head -8
grep "^\[verdicts\]\|INCOMPLETE\|MISMATCH" /tmp/seed_$P.log | cut -c1-300 | head -5
