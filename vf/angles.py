"""Exact algebraic treatment of angles and transcendental functions in the real domains
(DESIGN.md 2.3): sin/cos are polynomial in unit-circle pairs of angle atoms; atan/atan2/asin/acos
are characterised by their defining relations; exp/log are handled in the log domain."""
import math
from fractions import Fraction
import z3
from .interp import SV, Inconclusive, RV, realval, UNDEF


class Atom:
    __slots__ = ("name", "t", "S", "C", "lo", "hi", "subs")

    def __init__(self, name, t, S, C):
        self.name, self.t, self.S, self.C = name, t, S, C
        self.lo = self.hi = None
        self.subs = {}


def _st(eng):
    s = getattr(eng, "_angles", None)
    if s is None:
        s = eng._angles = dict(atoms={}, by_term={}, pi=None, sqrt={}, exp={}, log={})
    return s


def PI(eng):
    s = _st(eng)
    if s["pi"] is None:
        p = z3.Real("pi")
        s["pi"] = p
        eng.side.append(z3.And(p > RV("3141592653589793/1000000000000000"), p < RV("3141592653589794/1000000000000000")))
    return s["pi"]


def _sqrtc(eng, n):
    s = _st(eng)
    if n not in s["sqrt"]:
        r = z3.Real("sqrt%d" % n)
        s["sqrt"][n] = r
        eng.side.append(z3.And(r > 0, r * r == n))
    return s["sqrt"][n]


def _snap_pi(x):
    """Fraction q with x ~= q*pi (|err| < 1e-12 relative), else None"""
    if x == 0:
        return Fraction(0)
    if x != x or abs(x) > 1e6:
        return None
    q = Fraction(x / math.pi).limit_denominator(720)
    if q != 0 and abs(float(q) * math.pi - x) <= 4e-16 * max(1.0, abs(x)) * 4:
        return q
    return None


def _bound_term(eng, x):
    q = _snap_pi(x)
    if q is not None:
        return RV(str(q)) * PI(eng) if q != 0 else RV(0)
    return realval(x)


def _range_facts(eng, a, lo, hi):
    """sign facts for (S, C) implied by a range given as python floats (may be +-inf)"""
    pi = math.pi
    eps = 1e-12
    out = []
    if lo is None or hi is None:
        return out
    if lo > -pi / 2 - eps and hi < pi / 2 + eps:
        strict = lo > -pi / 2 + eps and hi < pi / 2 - eps
        out.append(a.C > 0 if strict else a.C >= 0)
        out.append(z3.And(z3.Implies(a.t > 0, a.S > 0), z3.Implies(a.t < 0, a.S < 0), z3.Implies(a.t == 0, a.S == 0)))
    if lo > -pi - eps and hi < pi + eps:
        out.append(z3.And(z3.Implies(z3.And(a.t > 0, a.t < PI(eng)), a.S > 0),
                          z3.Implies(z3.And(a.t < 0, a.t > -PI(eng)), a.S < 0),
                          z3.Implies(a.t == 0, z3.And(a.S == 0, a.C == 1)),
                          z3.Implies(z3.And(a.t > -PI(eng) / 2, a.t < PI(eng) / 2), a.C > 0),
                          z3.Implies(z3.Or(a.t > PI(eng) / 2, a.t < -PI(eng) / 2), a.C < 0)))
    if lo > -eps and hi < pi + eps:
        out.append(a.S >= 0)
    if lo > -pi - eps and hi < eps:
        out.append(a.S <= 0)
    return out


def new_atom(eng, name, t=None, lo=None, hi=None, constraints=True):
    s = _st(eng)
    a = s["atoms"].get(name)
    if a is not None:
        return a
    if t is None:
        t = z3.Real(name)
    S = z3.Real("sin(%s)" % name)
    C = z3.Real("cos(%s)" % name)
    a = Atom(name, t, S, C)
    a.lo, a.hi = lo, hi
    s["atoms"][name] = a
    eng.side.append(S * S + C * C == 1)
    if lo is not None:
        eng.side.append(t >= _bound_term(eng, lo))
    if hi is not None:
        eng.side.append(t <= _bound_term(eng, hi))
    eng.side.extend(_range_facts(eng, a, lo, hi))
    return a


def declare_angle(eng, st, v, name, lo, hi):
    new_atom(eng, name, v.e, float(lo), float(hi))


def sub_atom(eng, a, d):
    """atom for a.t / d, linked to a by the multiple-angle polynomials"""
    if d == 1:
        return a
    b = a.subs.get(d)
    if b is not None:
        return b
    lo = a.lo / d if a.lo is not None else None
    hi = a.hi / d if a.hi is not None else None
    b = new_atom(eng, "%s/%d" % (a.name, d), None, lo, hi)
    eng.side.append(b.t == a.t / d)
    sn, cn = _multiple(d, b.S, b.C)
    eng.side.append(z3.And(a.S == sn, a.C == cn))
    a.subs[d] = b
    return b


def _multiple(n, S, C):
    """(sin(n x), cos(n x)) from (S, C) = (sin x, cos x), n integer"""
    if n == 0:
        return RV(0), RV(1)
    if n < 0:
        s, c = _multiple(-n, S, C)
        return -s, c
    s, c = S, C
    for _ in range(n - 1):
        s, c = s * C + c * S, c * C - s * S
    return s, c


def _add(p, q):
    (s1, c1), (s2, c2) = p, q
    return s1 * c2 + c1 * s2, c1 * c2 - s1 * s2


def _pi_multiple(eng, q):
    """(sin(q pi), cos(q pi)) for a Fraction q, or None"""
    q = q % 2
    table = {Fraction(0): (0, 1), Fraction(1, 2): (1, 0), Fraction(1): (0, -1), Fraction(3, 2): (-1, 0)}
    if q in table:
        s, c = table[q]
        return RV(s), RV(c)
    d = q.denominator
    if d in (3, 4, 6):
        base = {4: ("s2", "s2"), 3: ("s3", "h"), 6: ("h", "s3")}[d]   # sin, cos of pi/d

        def val(tag):
            if tag == "h":
                return RV("1/2")
            if tag == "s2":
                return _sqrtc(eng, 2) / 2
            return _sqrtc(eng, 3) / 2
        s1, c1 = val(base[0]), val(base[1])
        return _multiple(q.numerator, s1, c1)
    return None


# ----------------------------------------------------------------------------- linear forms

class _Fail(Exception):
    pass


def parse_linear(eng, e):
    """-> ({atom name: Fraction}, Fraction multiple of pi)   or raises _Fail"""
    s = _st(eng)
    atoms = {}
    pim = [Fraction(0)]

    def rat(x):
        if z3.is_int_value(x):
            return Fraction(x.as_long())
        if z3.is_rational_value(x):
            return Fraction(x.numerator_as_long(), x.denominator_as_long())
        return None

    def go(x, k):
        r = rat(x)
        if r is not None:
            if r == 0:
                return
            q = _snap_pi(float(r))
            if q is None:
                # an angle constant that is not a multiple of pi: a bounded fresh atom
                name = "const(%r)" % float(r)
                if name not in s["atoms"]:
                    a = new_atom(eng, name, realval(float(r)), None, None)
                    sv, cv = math.sin(float(r)), math.cos(float(r))
                    tol = RV("1/1000000000000000")
                    eng.side.append(z3.And(a.S >= realval(sv) - tol, a.S <= realval(sv) + tol,
                                           a.C >= realval(cv) - tol, a.C <= realval(cv) + tol))
                atoms[name] = atoms.get(name, 0) + k
                return
            pim[0] += q * k
            return
        if not z3.is_app(x):
            raise _Fail()
        dk = x.decl().kind()
        ch = x.children()
        if dk == z3.Z3_OP_ADD:
            for c in ch:
                go(c, k)
        elif dk == z3.Z3_OP_SUB:
            go(ch[0], k)
            for c in ch[1:]:
                go(c, -k)
        elif dk == z3.Z3_OP_UMINUS:
            go(ch[0], -k)
        elif dk == z3.Z3_OP_MUL:
            consts = [rat(c) for c in ch]
            non = [c for c, r in zip(ch, consts) if r is None]
            ints = [c for c in non if z3.is_app(c) and c.decl().kind() == z3.Z3_OP_TO_REAL]
            if ints and len(non) >= 2:
                # integer * (even multiple of pi): vanishes modulo 2 pi
                rest = [c for c in non if c not in ints]
                f = Fraction(1)
                for r in consts:
                    if r is not None:
                        f *= r
                if len(rest) == 1:
                    sub_atoms, sub_pi = parse_linear(eng, rest[0])
                    if not sub_atoms and (sub_pi * f) % 2 == 0:
                        return
                raise _Fail()
            if len(non) != 1:
                raise _Fail()
            f = Fraction(1)
            for r in consts:
                if r is not None:
                    f *= r
            go(non[0], k * f)
        elif dk == z3.Z3_OP_DIV:
            r = rat(ch[1])
            if r is None or r == 0:
                raise _Fail()
            go(ch[0], k / r)
        elif dk == z3.Z3_OP_UNINTERPRETED and not ch:
            name = x.decl().name()
            if s["pi"] is not None and name == "pi":
                pim[0] += k
                return
            if name.startswith("sin(") or name.startswith("cos("):
                raise _Fail()
            a = s["atoms"].get(name)
            if a is None:
                a = new_atom(eng, name, x, None, None)
            atoms[name] = atoms.get(name, 0) + k
        elif dk == z3.Z3_OP_TO_REAL:
            raise _Fail()
        else:
            raise _Fail()

    go(e, Fraction(1))
    return {n: c for n, c in atoms.items() if c != 0}, pim[0]


def sincos_term(eng, st, e):
    """(sin e, cos e) as z3 terms"""
    s = _st(eng)
    ez = z3.simplify(e, som=False)
    if z3.is_rational_value(ez) and ez.numerator_as_long() == 0:
        return RV(0), RV(1)
    try:
        atoms, pim = parse_linear(eng, e)
    except _Fail:
        atoms, pim = None, None
    if atoms is not None:
        pm = _pi_multiple(eng, pim)
        if pm is None:
            atoms = None
    if atoms is None and z3.is_app(e) and e.decl().kind() == z3.Z3_OP_ITE:
        c, x, y = e.children()
        s1, c1 = sincos_term(eng, st, x)
        s2, c2 = sincos_term(eng, st, y)
        return z3.If(c, s1, s2), z3.If(c, c1, c2)
    if atoms is None and z3.is_app(e) and e.decl().kind() in (z3.Z3_OP_ADD, z3.Z3_OP_SUB, z3.Z3_OP_UMINUS):
        # sum containing a conditional or opaque part: expand structurally with the addition formulas
        ch = e.children()
        dk = e.decl().kind()
        if dk == z3.Z3_OP_UMINUS:
            s1, c1 = sincos_term(eng, st, ch[0])
            return -s1, c1
        acc = sincos_term(eng, st, ch[0])
        for x in ch[1:]:
            sx, cx = sincos_term(eng, st, x)
            if dk == z3.Z3_OP_SUB:
                sx = -sx
            acc = _add(acc, (sx, cx))
        return acc
    if atoms is None:
        # opaque angle: one atom for the whole term
        key = eng.nf_key(e)
        a = s["by_term"].get(key)
        if a is None:
            name = "ang!%d" % (len(s["by_term"]) + 1)
            a = new_atom(eng, name, None, None, None)
            eng.side.append(a.t == e)
            s["by_term"][key] = a
            eng._keep.append(e)
        return a.S, a.C
    acc = pm
    for name in sorted(atoms):
        q = atoms[name]
        a = s["atoms"][name]
        b = sub_atom(eng, a, q.denominator)
        acc = _add(acc, _multiple(q.numerator, b.S, b.C))
    return acc


# ----------------------------------------------------------------------------- function application

def _d_scale(x, f):
    return {k: v * f for k, v in x.d.items()} if x.d else None


def _once(st, key):
    seen = st.user.setdefault("atoms", set())
    if key in seen:
        return False
    seen.add(key)
    return True


def _inv_atom(eng, st, kind, args, lo, hi):
    """fresh atom for the result of an inverse trigonometric function (cached per argument terms)"""
    s = _st(eng)
    key = (kind,) + tuple(a.get_id() for a in args)
    a = s["by_term"].get(key)
    if a is None:
        name = "%s!%d" % (kind, len(s["by_term"]) + 1)
        a = new_atom(eng, name, None, lo, hi)
        s["by_term"][key] = a
        eng._keep.extend(args)
    return a, key


def apply1(eng, st, name, x, ty):
    e = x.e
    if name in ("sin", "cos"):
        sn, cs = sincos_term(eng, st, e)
        if name == "sin":
            return _rnd(eng, SV(sn, d=_d_scale(x, cs)), ty)
        return _rnd(eng, SV(cs, d=_d_scale(x, -sn)), ty)
    if name == "tan":
        sn, cs = sincos_term(eng, st, e)
        eng.add_obligation(st, "def:tan-cos-nonzero", "def", cs != 0)
        st.assume(cs != 0)
        return _rnd(eng, SV(sn / cs, d=_d_scale(x, 1 / (cs * cs))), ty)
    if name == "atan":
        a, key = _inv_atom(eng, st, "atan", [e], -math.pi / 2, math.pi / 2)
        if _once(st, key):
            st.assume(eng.mark_def(z3.And(a.C > 0, a.S == e * a.C, a.t > -PI(eng) / 2, a.t < PI(eng) / 2)))
        return _rnd(eng, SV(a.t, d=_d_scale(x, 1 / (1 + e * e))), ty)
    if name == "asin":
        a, key = _inv_atom(eng, st, "asin", [e], -math.pi / 2, math.pi / 2)
        if _once(st, key):
            eng.add_obligation(st, "def:asin-argument-in-[-1,1]", "def", z3.And(e >= -1, e <= 1))
            st.assume(z3.And(e >= -1, e <= 1))
            st.assume(eng.mark_def(z3.And(a.S == e, a.C >= 0)))
        d = None
        if x.d:
            eng.add_obligation(st, "def:asin-derivative-away-from-+-1", "def", a.C != 0)
            st.assume(a.C != 0)
            d = _d_scale(x, 1 / a.C)
        return _rnd(eng, SV(a.t, d=d), ty)
    if name == "acos":
        a, key = _inv_atom(eng, st, "acos", [e], 0.0, math.pi)
        if _once(st, key):
            eng.add_obligation(st, "def:acos-argument-in-[-1,1]", "def", z3.And(e >= -1, e <= 1))
            st.assume(z3.And(e >= -1, e <= 1))
            st.assume(eng.mark_def(z3.And(a.C == e, a.S >= 0)))
        d = None
        if x.d:
            eng.add_obligation(st, "def:acos-derivative-away-from-+-1", "def", a.S != 0)
            st.assume(a.S != 0)
            d = _d_scale(x, -1 / a.S)
        return _rnd(eng, SV(a.t, d=d), ty)
    if name == "exp":
        return _exp(eng, st, x, ty)
    if name == "log":
        return _log(eng, st, x, ty)
    raise Inconclusive("no exact model for %s" % name)


def apply2(eng, st, name, x, y, ty):
    ex, ey = eng.fterm(x, ty), eng.fterm(y, ty)
    if name == "atan2":
        # atan2(y, x): first argument is the ordinate
        oy, ox = ex, ey
        a, key = _inv_atom(eng, st, "atan2", [oy, ox], -math.pi, math.pi)
        r = z3.Real(a.name + ".r")
        if _once(st, key):
            nz = z3.Or(ox != 0, oy != 0)
            eng.add_obligation(st, "def:atan2-of-nonzero-vector", "def", nz)
            st.assume(nz)
            st.assume(eng.mark_def(z3.And(r > 0, r * r == ox * ox + oy * oy, a.S * r == oy, a.C * r == ox,
                                          a.t > -PI(eng), a.t <= PI(eng))))
        d = None
        dy = x.d if isinstance(x, SV) else None
        dx = y.d if isinstance(y, SV) else None
        if dy or dx:
            d = {}
            z = RV(0)
            for k in set(dy or ()) | set(dx or ()):
                d[k] = (ox * (dy or {}).get(k, z) - oy * (dx or {}).get(k, z)) / (r * r)
        return _rnd(eng, SV(a.t, d=d), ty)
    if name == "fmod":
        # r = x - k*y, k integer, |r| < |y|, r has the sign of x (y must be a nonzero constant here)
        if isinstance(y, SV):
            raise Inconclusive("fmod with symbolic modulus")
        if y == 0:
            raise Inconclusive("fmod by zero")
        yy = abs(y)
        q = _snap_pi(yy)
        ym = RV(str(q)) * PI(eng) if q else realval(yy)
        k = eng.fresh("fmodk", z3.IntSort())
        r = ex - z3.ToReal(k) * ym
        st.assume(eng.mark_def(z3.And(z3.Implies(ex >= 0, z3.And(r >= 0, r < ym)), z3.Implies(ex < 0, z3.And(r <= 0, r > -ym)))))
        return SV(r, d=x.d if isinstance(x, SV) else None)
    if name == "pow":
        return _pow(eng, st, x, y, ty)
    if name == "hypot":
        from . import trig
        return trig.sqrt(eng, st, SV(ex * ex + ey * ey), ty)
    raise Inconclusive("no exact model for %s" % name)


def _rnd(eng, v, ty):
    if eng.fmode == "rounded":
        return eng.rnd(v, ty)
    return v


# ----------------------------------------------------------------------------- exp / log / pow

def _exp(eng, st, x, ty):
    """exp(e): a positive atom E(e); exp(a+b) is NOT decomposed automatically, but exp(log u) = u and
    exp(c * log u) = u^c for small integer c are recognised"""
    s = _st(eng)
    e = x.e
    r = _match_log_form(eng, e)
    if r is not None:
        return SV(r, d=_d_scale(x, r))
    key = eng.nf_key(e)
    E = s["exp"].get(key)
    if E is None:
        E = eng.fresh("exp", z3.RealSort())
        s["exp"][key] = E
        eng._keep.append(e)
        eng.side.append(E > 0)
        # exp(t) * exp(-t) = 1 against the arguments seen so far (syntactic: t + t' simplifies to 0)
        for (e2, E2) in s.setdefault("exp_args", []):
            z = z3.simplify(e + e2)
            if z3.is_rational_value(z) and z.numerator_as_long() == 0:
                eng.side.append(E * E2 == 1)
        s["exp_args"].append((e, E))
        s.setdefault("exp_of", {})[E.get_id()] = e
    return SV(E, d=_d_scale(x, E))


def _log(eng, st, x, ty):
    s = _st(eng)
    e = x.e
    # log(exp(t)) = t
    t_of = s.get("exp_of", {}).get(e.get_id()) if z3.is_const(e) else None
    if t_of is not None:
        return SV(t_of, d=_d_scale(x, 1 / e))
    key = eng.nf_key(e)
    L = s["log"].get(key)
    if L is None:
        L = eng.fresh("log", z3.RealSort())
        s["log"][key] = L
        eng._keep.append(e)
        s.setdefault("log_args", {})[L.get_id()] = (e, L)
    if _once(st, ("log", key)):
        eng.add_obligation(st, "def:log-of-positive", "def", e > 0)
        st.assume(e > 0)
        st.assume(eng.mark_def(z3.And(z3.Implies(e > 1, L > 0), z3.Implies(e < 1, L < 0), z3.Implies(e == 1, L == 0))))
        # tangent bounds: 1 - 1/u <= log u <= u - 1
        st.assume(eng.mark_def(z3.And(L <= e - 1, L * e >= e - 1)))
    return SV(L, d=_d_scale(x, 1 / e))


def _match_log_form(eng, e):
    """if e is c * log(u) (c rational) return u^c when c is a small integer or 1/2, else None"""
    s = _st(eng)
    la = s.get("log_args", {})

    def rat(x):
        if z3.is_int_value(x):
            return Fraction(x.as_long())
        if z3.is_rational_value(x):
            return Fraction(x.numerator_as_long(), x.denominator_as_long())
        return None
    c = Fraction(1)
    x = e
    while True:
        if z3.is_app(x) and x.decl().kind() == z3.Z3_OP_UNINTERPRETED and x.get_id() in la:
            u = la[x.get_id()][0]
            break
        if not z3.is_app(x):
            return None
        dk = x.decl().kind()
        ch = x.children()
        if dk == z3.Z3_OP_UMINUS:
            c = -c
            x = ch[0]
        elif dk == z3.Z3_OP_MUL and len(ch) == 2 and (rat(ch[0]) is not None or rat(ch[1]) is not None):
            r0 = rat(ch[0])
            if r0 is not None:
                c *= r0
                x = ch[1]
            else:
                c *= rat(ch[1])
                x = ch[0]
        elif dk == z3.Z3_OP_DIV and rat(ch[1]) is not None:
            c /= rat(ch[1])
            x = ch[0]
        else:
            return None
    if c.denominator == 1 and 1 <= abs(c.numerator) <= 4:
        p = u
        for _ in range(abs(c.numerator) - 1):
            p = p * u
        return p if c > 0 else 1 / p
    return None


def _pow(eng, st, x, y, ty):
    """pow(x, y): small integer / half-integer constant exponents exactly; general: exp(y log x) as an atom
    P > 0 with the defining relation kept by name (same (x, y) terms give the same P)"""
    ex, ey = eng.fterm(x, ty), eng.fterm(y, ty)
    if not isinstance(y, SV):
        fy = float(y)
        if fy == int(fy) and abs(fy) <= 6:
            n = int(fy)
            if n == 0:
                return 1.0
            p = ex
            for _ in range(abs(n) - 1):
                p = p * ex
            d = None
            if isinstance(x, SV) and x.d:
                pm1 = RV(1)
                for _ in range(abs(n) - 1):
                    pm1 = pm1 * ex
                d = {k: v * n * pm1 for k, v in x.d.items()} if n > 0 else None
            if n < 0:
                eng.add_obligation(st, "def:division-by-nonzero", "def", ex != 0)
                st.assume(ex != 0)
                if isinstance(x, SV) and x.d:
                    d = {k: v * n * p / (ex * ex) / p / p * p for k, v in x.d.items()}
                    d = {k: v * n / (p * ex) for k, v in x.d.items()}
                return SV(1 / p, d=d)
            return SV(p, d=d)
        if fy == 0.5:
            from . import trig
            return trig.sqrt(eng, st, x, ty)
    s = _st(eng)
    key = ("pow", eng.nf_key(ex), eng.nf_key(ey))
    P = s["exp"].get(key)
    if P is None:
        P = eng.fresh("pow", z3.RealSort())
        s["exp"][key] = P
        eng._keep.extend([ex, ey])
        eng.side.append(P > 0)
        # b^y * (1/b)^y = 1 for an earlier base b' with b*b' == 1 (decided by a quick solver query) and the same exponent
        for (bx, by, P2) in s.setdefault("pow_args", []):
            if by.get_id() == ey.get_id():
                q = z3.Solver()
                q.set("timeout", 2000)
                q.add(bx > 0, ex > 0, bx * ex != 1)
                if q.check() == z3.unsat:
                    eng.side.append(P * P2 == 1)
        s["pow_args"].append((ex, ey, P))
    if _once(st, key):
        eng.add_obligation(st, "def:pow-of-positive-base", "def", ex > 0)
        st.assume(ex > 0)
    d = None
    dx = x.d if isinstance(x, SV) else None
    dy = y.d if isinstance(y, SV) else None
    if dx or dy:
        # d(x^y) = x^y * (y' log x + y x'/x)
        z = RV(0)
        lg = _log(eng, st, SV(ex), ty).e if dy else None
        d = {}
        for k in set(dx or ()) | set(dy or ()):
            t = ey * (dx or {}).get(k, z) / ex
            if dy and k in dy:
                t = t + dy[k] * lg
            d[k] = P * t
    return SV(P, d=d)
