"""Parser for LLVM-14 textual IR (typed pointers), restricted to what clang++-14 -O1
emits for the romea-core-common translation units.  No dependency on llvmlite."""
import re
import struct

# ----------------------------------------------------------------------------- types


class Type:
    __slots__ = ("k", "n", "elem", "elems", "packed", "name", "ret", "args", "vararg",
                 "_size", "_align", "_offsets", "mod")

    def __init__(self, k, **kw):
        self.k = k
        self.n = kw.get("n")
        self.elem = kw.get("elem")
        self.elems = kw.get("elems")
        self.packed = kw.get("packed", False)
        self.name = kw.get("name")
        self.ret = kw.get("ret")
        self.args = kw.get("args")
        self.vararg = kw.get("vararg", False)
        self.mod = kw.get("mod")
        self._size = None
        self._align = None
        self._offsets = None

    def __repr__(self):
        k = self.k
        if k == "int":
            return "i%d" % self.n
        if k in ("float", "double", "void", "label", "metadata", "x86_fp80", "token"):
            return k
        if k == "ptr":
            return repr(self.elem) + "*"
        if k == "array":
            return "[%d x %r]" % (self.n, self.elem)
        if k == "vector":
            return "<%d x %r>" % (self.n, self.elem)
        if k == "struct":
            return "{" + ", ".join(map(repr, self.elems)) + "}"
        if k == "named":
            return "%" + self.name
        if k == "func":
            return "%r (%s)" % (self.ret, ", ".join(map(repr, self.args)))
        return k

    def resolve(self):
        t = self
        while t.k == "named":
            t = t.mod.named_types[t.name]
        return t

    @property
    def size(self):
        if self._size is None:
            self._layout()
        return self._size

    @property
    def align(self):
        if self._align is None:
            self._layout()
        return self._align

    @property
    def offsets(self):
        if self._offsets is None:
            self._layout()
        return self._offsets

    def _layout(self):
        k = self.k
        if k == "int":
            n = self.n
            s = 1 if n <= 8 else 2 if n <= 16 else 4 if n <= 32 else 8 if n <= 64 else 16
            self._size, self._align = s, s
        elif k == "float":
            self._size, self._align = 4, 4
        elif k == "double":
            self._size, self._align = 8, 8
        elif k == "x86_fp80":
            self._size, self._align = 16, 16
        elif k in ("ptr", "func"):
            self._size, self._align = 8, 8
        elif k == "array":
            self._size, self._align = self.n * self.elem.size, self.elem.align
        elif k == "vector":
            s = self.n * self.elem.size
            self._size, self._align = s, s
        elif k == "named":
            r = self.resolve()
            self._size, self._align, self._offsets = r.size, r.align, r.offsets
        elif k == "struct":
            off, al, offs = 0, 1, []
            for e in self.elems:
                a = 1 if self.packed else e.align
                al = max(al, a)
                off = (off + a - 1) // a * a
                offs.append(off)
                off += e.size
            off = (off + al - 1) // al * al
            self._size, self._align, self._offsets = off, al, offs
        elif k == "opaque":
            self._size, self._align = 0, 1
        else:
            raise ValueError("no layout for %r" % self)


VOID = Type("void")
LABEL = Type("label")
META = Type("metadata")
FLOAT = Type("float")
DOUBLE = Type("double")
FP80 = Type("x86_fp80")
_INTS = {}


def IntT(n):
    t = _INTS.get(n)
    if t is None:
        t = _INTS[n] = Type("int", n=n)
    return t


I1, I8, I32, I64 = IntT(1), IntT(8), IntT(32), IntT(64)


def PtrT(e):
    return Type("ptr", elem=e)


# ----------------------------------------------------------------------------- tokens

_TOK = re.compile(r"""
    (?P<ws>\s+)
  | (?P<cstr>c"(?:[^"\\]|\\[0-9A-Fa-f]{2}|\\\\)*")
  | (?P<local>%(?:"(?:[^"\\]|\\.)*"|[-a-zA-Z$._0-9]+))
  | (?P<glob>@(?:"(?:[^"\\]|\\.)*"|[-a-zA-Z$._0-9]+))
  | (?P<comdat>\$(?:"(?:[^"\\]|\\.)*"|[-a-zA-Z$._0-9]+))
  | (?P<meta>![-a-zA-Z$._0-9]*)
  | (?P<attr>\#\d+)
  | (?P<hex>0x[KLMHR]?[0-9A-Fa-f]+)
  | (?P<flt>[-+]?\d+\.\d*(?:[eE][-+]?\d+)?)
  | (?P<int>-?\d+)
  | (?P<dots>\.\.\.)
  | (?P<id>[a-zA-Z_][-a-zA-Z_.0-9]*)
  | (?P<str>"(?:[^"\\]|\\.)*")
  | (?P<p>[()\[\]{}<>,=*:|])
""", re.X)


def tokenize(s):
    out = []
    pos = 0
    n = len(s)
    m = _TOK.match
    while pos < n:
        mo = m(s, pos)
        if mo is None:
            raise SyntaxError("cannot tokenize: %r" % s[pos:pos + 40])
        k = mo.lastgroup
        if k != "ws":
            out.append((k, mo.group()))
        pos = mo.end()
    return out


def _unq(name):
    # strip sigil and quotes
    name = name[1:]
    if name.startswith('"'):
        name = name[1:-1]
    return name


# ----------------------------------------------------------------------------- operands
# operand = (kind, payload, type)
#   'c'  python constant (int / float / None for null pointer)
#   'l'  local name        'g' global name      'undef'   'zero'   'agg' list
#   'ce' (op, ...) constant expression          'cstr' bytes


class Instr:
    __slots__ = ("op", "dest", "ty", "a", "x", "flags", "text")

    def __init__(self, op, dest=None, ty=None, a=None, x=None, flags=(), text=""):
        self.op, self.dest, self.ty, self.a, self.x, self.flags, self.text = op, dest, ty, a, x, flags, text

    def __repr__(self):
        return self.text


class Block:
    __slots__ = ("name", "instrs", "phis")

    def __init__(self, name):
        self.name = name
        self.instrs = []
        self.phis = []


class Function:
    def __init__(self, name, ret, params, vararg):
        self.name = name
        self.ret = ret
        self.params = params  # list of (type, name, attrs)
        self.vararg = vararg
        self.blocks = {}
        self.order = []
        self.entry = None
        self.declared_only = True


class Global:
    def __init__(self, name, ty, init, const):
        self.name, self.ty, self.init, self.const = name, ty, init, const


_PARAM_ATTRS = {
    "noundef", "nonnull", "zeroext", "signext", "nocapture", "readonly", "writeonly", "noalias",
    "immarg", "returned", "nofree", "inreg", "nest", "readnone", "swiftself", "noalias",
    "allocalign", "swifterror", "inalloca",
}
_PARAM_ATTRS_ARG = {"align", "dereferenceable", "dereferenceable_or_null", "sret", "byval", "byref",
                    "preallocated", "elementtype", "allocsize"}
_LINKAGE = {
    "private", "internal", "available_externally", "linkonce", "weak", "common", "appending",
    "extern_weak", "linkonce_odr", "weak_odr", "external", "dso_local", "dso_preemptable",
    "default", "hidden", "protected", "unnamed_addr", "local_unnamed_addr", "thread_local",
    "externally_initialized", "dllimport", "dllexport",
}
_CCONV = {"fastcc", "ccc", "coldcc", "tailcc"}
_FMF = {"fast", "nnan", "ninf", "nsz", "arcp", "contract", "afn", "reassoc"}
_CASTS = {"bitcast", "ptrtoint", "inttoptr", "trunc", "zext", "sext", "fptrunc", "fpext", "fptoui",
          "fptosi", "uitofp", "sitofp", "addrspacecast"}
_BINOPS = {"add", "sub", "mul", "udiv", "sdiv", "urem", "srem", "shl", "lshr", "ashr", "and", "or",
           "xor", "fadd", "fsub", "fmul", "fdiv", "frem"}


class Parser:
    def __init__(self, mod, toks):
        self.mod = mod
        self.t = toks
        self.i = 0

    # -- token helpers
    def peek(self, o=0):
        j = self.i + o
        return self.t[j] if j < len(self.t) else ("eof", "")

    def next(self):
        tk = self.t[self.i]
        self.i += 1
        return tk

    def accept(self, val):
        if self.i < len(self.t) and self.t[self.i][1] == val:
            self.i += 1
            return True
        return False

    def expect(self, val):
        tk = self.next()
        if tk[1] != val:
            raise SyntaxError("expected %r got %r near %r" % (val, tk, self.t[max(0, self.i - 6):self.i + 4]))

    def at_end(self):
        return self.i >= len(self.t)

    # -- types
    def parse_type(self):
        k, v = self.next()
        if k == "id":
            if v[0] == "i" and v[1:].isdigit():
                t = IntT(int(v[1:]))
            elif v == "float":
                t = FLOAT
            elif v == "double":
                t = DOUBLE
            elif v == "void":
                t = VOID
            elif v == "x86_fp80":
                t = FP80
            elif v == "label":
                t = LABEL
            elif v == "metadata":
                t = META
            elif v == "opaque":
                t = Type("opaque")
            elif v == "token":
                t = Type("token")
            elif v == "half":
                t = Type("half")
            else:
                raise SyntaxError("type? %r" % v)
        elif k == "local":
            t = Type("named", name=_unq(v), mod=self.mod)
        elif v == "[":
            n = int(self.next()[1])
            self.expect("x")
            e = self.parse_type()
            self.expect("]")
            t = Type("array", n=n, elem=e)
        elif v == "{":
            t = self._struct_body(False)
        elif v == "<":
            if self.peek()[1] == "{":
                self.next()
                t = self._struct_body(True)
                self.expect(">")
            else:
                n = int(self.next()[1])
                self.expect("x")
                e = self.parse_type()
                self.expect(">")
                t = Type("vector", n=n, elem=e)
        else:
            raise SyntaxError("type? %r %r" % (k, v))
        # suffixes: '*' and function '(...)'
        while True:
            p = self.peek()[1]
            if p == "*":
                self.next()
                t = PtrT(t)
            elif p == "(":
                self.next()
                args, va = [], False
                if not self.accept(")"):
                    while True:
                        if self.peek()[0] == "dots":
                            self.next()
                            va = True
                        else:
                            args.append(self.parse_type())
                            self._skip_param_attrs()
                        if self.accept(")"):
                            break
                        self.expect(",")
                t = Type("func", ret=t, args=args, vararg=va)
            elif p == "addrspace":
                self.next(); self.expect("("); self.next(); self.expect(")")
            else:
                return t

    def _struct_body(self, packed):
        elems = []
        if not self.accept("}"):
            while True:
                elems.append(self.parse_type())
                if self.accept("}"):
                    break
                self.expect(",")
        return Type("struct", elems=elems, packed=packed)

    def _skip_param_attrs(self):
        attrs = {}
        while True:
            k, v = self.peek()
            if k == "id" and v in _PARAM_ATTRS:
                self.next()
                attrs[v] = True
            elif k == "id" and v in _PARAM_ATTRS_ARG:
                self.next()
                if self.accept("("):
                    if v in ("sret", "byval", "byref", "elementtype", "preallocated"):
                        attrs[v] = self.parse_type()
                        self.expect(")")
                    else:
                        depth = 1
                        while depth:
                            x = self.next()[1]
                            depth += (x == "(") - (x == ")")
                        attrs[v] = True
                else:
                    attrs[v] = int(self.next()[1])
            else:
                return attrs

    # -- values
    def parse_value(self, ty):
        k, v = self.next()
        if k == "local":
            return ("l", _unq(v), ty)
        if k == "glob":
            return ("g", _unq(v), ty)
        if k == "int":
            return ("c", int(v), ty)
        if k == "flt":
            return ("c", float(v), ty)
        if k == "hex":
            return ("c", parse_hex_float(v, ty), ty)
        if k == "cstr":
            return ("cstr", parse_cstr(v), ty)
        if k == "id":
            if v == "null":
                return ("c", 0, ty)
            if v == "true":
                return ("c", 1, ty)
            if v == "false":
                return ("c", 0, ty)
            if v in ("undef", "poison"):
                return ("undef", None, ty)
            if v == "zeroinitializer":
                return ("zero", None, ty)
            if v == "none":
                return ("c", 0, ty)
            if v == "getelementptr":
                inb = self.accept("inbounds")
                self.expect("(")
                bt = self.parse_type()
                self.expect(",")
                ops = [self.parse_typed_value()]
                while self.accept(","):
                    self.accept("inrange")
                    ops.append(self.parse_typed_value())
                self.expect(")")
                return ("ce", ("getelementptr", bt, ops), ty)
            if v in _CASTS:
                self.expect("(")
                src = self.parse_typed_value()
                self.expect("to")
                dt = self.parse_type()
                self.expect(")")
                return ("ce", (v, src, dt), ty)
            if v in _BINOPS or v in ("icmp", "fcmp", "select"):
                # rare constant expressions
                pred = None
                while self.peek()[0] == "id" and self.peek()[1] in ("nuw", "nsw", "exact"):
                    self.next()
                if v in ("icmp", "fcmp"):
                    pred = self.next()[1]
                self.expect("(")
                ops = [self.parse_typed_value()]
                while self.accept(","):
                    ops.append(self.parse_typed_value())
                self.expect(")")
                return ("ce", (v, pred, ops), ty)
            raise SyntaxError("value? %r" % v)
        if v == "{":
            vals = []
            if not self.accept("}"):
                while True:
                    vals.append(self.parse_typed_value())
                    if self.accept("}"):
                        break
                    self.expect(",")
            return ("agg", vals, ty)
        if v == "[":
            vals = []
            if not self.accept("]"):
                while True:
                    vals.append(self.parse_typed_value())
                    if self.accept("]"):
                        break
                    self.expect(",")
            return ("agg", vals, ty)
        if v == "<":
            if self.accept("{"):
                vals = []
                if not self.accept("}"):
                    while True:
                        vals.append(self.parse_typed_value())
                        if self.accept("}"):
                            break
                        self.expect(",")
                self.expect(">")
                return ("agg", vals, ty)
            vals = []
            while True:
                vals.append(self.parse_typed_value())
                if self.accept(">"):
                    break
                self.expect(",")
            return ("agg", vals, ty)
        if k == "meta":
            # metadata operand (only in debug intrinsics; ignored)
            if self.peek()[1] == "{":
                depth = 0
                while True:
                    x = self.next()[1]
                    depth += (x == "{") - (x == "}")
                    if depth == 0:
                        break
            return ("meta", None, ty)
        raise SyntaxError("value? %r %r" % (k, v))

    def parse_typed_value(self):
        ty = self.parse_type()
        self._skip_param_attrs()
        return self.parse_value(ty)


def parse_hex_float(v, ty):
    if v.startswith("0xK"):
        # x86_fp80: 20 hex digits: sign+exp (16 bits), mantissa 64 bits with explicit int bit
        h = int(v[3:], 16)
        se = h >> 64
        man = h & ((1 << 64) - 1)
        sign = -1.0 if se & 0x8000 else 1.0
        e = se & 0x7FFF
        if e == 0 and man == 0:
            return 0.0 * sign
        return sign * man * 2.0 ** (e - 16383 - 63)
    h = int(v[2:], 16)
    return struct.unpack("<d", struct.pack("<Q", h))[0]


def parse_cstr(v):
    s = v[2:-1]
    out = bytearray()
    i = 0
    while i < len(s):
        ch = s[i]
        if ch == "\\":
            if s[i + 1] == "\\":
                out.append(0x5C)
                i += 2
            else:
                out.append(int(s[i + 1:i + 3], 16))
                i += 3
        else:
            out.append(ord(ch))
            i += 1
    return bytes(out)


# ----------------------------------------------------------------------------- module


class Module:
    def __init__(self):
        self.named_types = {}
        self.globals = {}
        self.functions = {}
        self.aliases = {}

    @staticmethod
    def parse_file(path):
        with open(path) as f:
            return Module.parse(f.read())

    @staticmethod
    def parse(text):
        mod = Module()
        lines = text.split("\n")
        i = 0
        n = len(lines)
        while i < n:
            line = lines[i]
            i += 1
            if not line or line[0] == ";":
                continue
            c = line[0]
            if c == "%":
                mod._parse_named_type(line)
            elif c == "@":
                mod._parse_global(line)
            elif line.startswith("define "):
                body = []
                while lines[i] != "}":
                    body.append(lines[i])
                    i += 1
                i += 1
                mod._parse_function(line, body)
            elif line.startswith("declare "):
                mod._parse_function(line, None)
            # target / source_filename / attributes / metadata / comdat: ignored
        for an, tv in mod.aliases.items():
            t = tv
            while t[0] == "ce" and t[1][0] in ("bitcast", "addrspacecast"):
                t = t[1][1]
            if t[0] == "g" and t[1] in mod.functions and an not in mod.functions:
                mod.functions[an] = mod.functions[t[1]]
        return mod

    def _parse_named_type(self, line):
        toks = tokenize(line)
        p = Parser(self, toks)
        name = _unq(p.next()[1])
        p.expect("=")
        p.expect("type")
        self.named_types[name] = p.parse_type()

    def _parse_global(self, line):
        line = _strip_meta(line)
        toks = tokenize(line)
        p = Parser(self, toks)
        name = _unq(p.next()[1])
        p.expect("=")
        const = False
        external = False
        while True:
            k, v = p.peek()
            if k == "id" and v in _LINKAGE:
                if v in ("external", "extern_weak"):
                    external = True
                p.next()
                if v == "thread_local" and p.peek()[1] == "(":
                    p.next(); p.next(); p.expect(")")
            elif k == "id" and v in ("global", "constant"):
                const = v == "constant"
                p.next()
                break
            elif k == "id" and v in ("alias", "ifunc"):
                p.next()
                ty = p.parse_type()
                p.expect(",")
                tv = p.parse_typed_value()
                self.aliases[name] = tv
                return
            else:
                raise SyntaxError("global? %r in %s" % (v, line[:100]))
        ty = p.parse_type()
        init = None
        if not external and not p.at_end() and p.peek()[1] != ",":
            init = p.parse_value(ty)
        self.globals[name] = Global(name, ty, init, const)

    def _parse_function(self, header, body):
        header = _strip_meta(header)
        toks = tokenize(header)
        p = Parser(self, toks)
        p.next()  # define / declare
        while True:
            k, v = p.peek()
            if k == "id" and (v in _LINKAGE or v in _CCONV):
                p.next()
            else:
                break
        p._skip_param_attrs()
        ret = p.parse_type()
        name = _unq(p.next()[1])
        p.expect("(")
        params = []
        vararg = False
        unnamed = 0
        if not p.accept(")"):
            while True:
                if p.peek()[0] == "dots":
                    p.next()
                    vararg = True
                else:
                    ty = p.parse_type()
                    attrs = p._skip_param_attrs()
                    pname = None
                    if p.peek()[0] == "local":
                        pname = _unq(p.next()[1])
                    else:
                        pname = str(unnamed)
                    if pname.isdigit():
                        unnamed = int(pname) + 1
                    params.append((ty, pname, attrs))
                if p.accept(")"):
                    break
                p.expect(",")
        fn = self.functions.get(name)
        if fn is None or body is not None:
            fn = Function(name, ret, params, vararg)
            self.functions[name] = fn
        if body is None:
            return
        fn.declared_only = False
        cur = Block(str(unnamed))
        fn.entry = cur.name
        fn.blocks[cur.name] = cur
        fn.order.append(cur.name)
        pending = None
        for line in body:
            if not line:
                continue
            if line[0] != " ":
                # label
                m = re.match(r'^("(?:[^"\\]|\\.)*"|[-a-zA-Z$._0-9]+):', line)
                if not m:
                    raise SyntaxError("label? %r" % line)
                lbl = m.group(1)
                if lbl.startswith('"'):
                    lbl = lbl[1:-1]
                cur = Block(lbl)
                fn.blocks[lbl] = cur
                fn.order.append(lbl)
                continue
            s = line.strip()
            if s.startswith(";"):
                continue
            if s.startswith("to label "):
                # continuation of invoke
                toks = tokenize(s)
                ins = cur.instrs[-1]
                ins.x = (_unq(toks[2][1]), _unq(toks[5][1]))
                continue
            if s in ("cleanup",) or s.startswith("catch ") or s.startswith("filter "):
                continue
            if pending is not None:
                pending.append(s)
                if s == "]":
                    s = " ".join(pending)
                    pending = None
                else:
                    continue
            elif s.startswith("switch ") and s.endswith("["):
                pending = [s]
                continue
            ins = parse_instr(self, s)
            if ins.op == "phi":
                cur.phis.append(ins)
            else:
                cur.instrs.append(ins)


def _strip_meta(s):
    # drop trailing ", !dbg !12, !tbaa !5" attachments and comments
    j = s.find(", !")
    if j >= 0:
        s = s[:j]
    j = s.find(" !llvm.")  # e.g. br ... , !llvm.loop handled above; defensive
    return s


def parse_instr(mod, s):
    text = s
    s = _strip_meta(s)
    toks = tokenize(s)
    p = Parser(mod, toks)
    dest = None
    if p.peek()[0] == "local" and p.peek(1)[1] == "=":
        dest = _unq(p.next()[1])
        p.next()
    k, op = p.next()
    if op in ("tail", "musttail", "notail"):
        k, op = p.next()
    I = Instr
    if op in _BINOPS:
        flags = []
        while p.peek()[0] == "id" and (p.peek()[1] in ("nuw", "nsw", "exact") or p.peek()[1] in _FMF):
            flags.append(p.next()[1])
        ty = p.parse_type()
        a = p.parse_value(ty)
        p.expect(",")
        b = p.parse_value(ty)
        return I(op, dest, ty, (a, b), flags=tuple(flags), text=text)
    if op == "fneg":
        while p.peek()[0] == "id" and p.peek()[1] in _FMF:
            p.next()
        ty = p.parse_type()
        return I(op, dest, ty, (p.parse_value(ty),), text=text)
    if op in ("icmp", "fcmp"):
        while p.peek()[0] == "id" and p.peek()[1] in _FMF:
            p.next()
        pred = p.next()[1]
        ty = p.parse_type()
        a = p.parse_value(ty)
        p.expect(",")
        b = p.parse_value(ty)
        return I(op, dest, ty, (a, b), x=pred, text=text)
    if op in _CASTS:
        src = p.parse_typed_value()
        p.expect("to")
        dt = p.parse_type()
        return I(op, dest, dt, (src,), text=text)
    if op == "load":
        at = p.accept("atomic")
        p.accept("volatile")
        ty = p.parse_type()
        p.expect(",")
        ptr = p.parse_typed_value()
        return I(op, dest, ty, (ptr,), flags=(("atomic",) if at else ()), text=text)
    if op == "store":
        at = p.accept("atomic")
        p.accept("volatile")
        v = p.parse_typed_value()
        p.expect(",")
        ptr = p.parse_typed_value()
        return I(op, None, v[2], (v, ptr), flags=(("atomic",) if at else ()), text=text)
    if op == "getelementptr":
        inb = p.accept("inbounds")
        bt = p.parse_type()
        p.expect(",")
        ops = [p.parse_typed_value()]
        while p.accept(","):
            ops.append(p.parse_typed_value())
        return I(op, dest, bt, tuple(ops), x=inb, text=text)
    if op == "alloca":
        ty = p.parse_type()
        cnt = None
        if p.accept(","):
            if p.peek()[1] == "align":
                pass
            else:
                cnt = p.parse_typed_value()
        return I(op, dest, ty, (cnt,), text=text)
    if op == "br":
        if p.peek()[1] == "label":
            p.next()
            return I("br", None, None, (), x=(_unq(p.next()[1]),), text=text)
        c = p.parse_typed_value()
        p.expect(","); p.expect("label")
        t = _unq(p.next()[1])
        p.expect(","); p.expect("label")
        f = _unq(p.next()[1])
        return I("condbr", None, None, (c,), x=(t, f), text=text)
    if op == "switch":
        c = p.parse_typed_value()
        p.expect(","); p.expect("label")
        default = _unq(p.next()[1])
        p.expect("[")
        cases = []
        while not p.accept("]"):
            cv = p.parse_typed_value()
            p.expect(","); p.expect("label")
            cases.append((cv[1], _unq(p.next()[1])))
        return I("switch", None, None, (c,), x=(default, cases), text=text)
    if op == "ret":
        ty = p.parse_type()
        if ty.k == "void":
            return I("ret", None, ty, (), text=text)
        return I("ret", None, ty, (p.parse_value(ty),), text=text)
    if op == "phi":
        while p.peek()[0] == "id" and p.peek()[1] in _FMF:
            p.next()
        ty = p.parse_type()
        inc = []
        while True:
            p.expect("[")
            v = p.parse_value(ty)
            p.expect(",")
            lbl = _unq(p.next()[1])
            p.expect("]")
            inc.append((v, lbl))
            if not p.accept(","):
                break
        return I("phi", dest, ty, tuple(inc), text=text)
    if op == "select":
        while p.peek()[0] == "id" and p.peek()[1] in _FMF:
            p.next()
        c = p.parse_typed_value()
        p.expect(",")
        a = p.parse_typed_value()
        p.expect(",")
        b = p.parse_typed_value()
        return I("select", dest, a[2], (c, a, b), text=text)
    if op in ("call", "invoke"):
        while p.peek()[0] == "id" and (p.peek()[1] in _FMF or p.peek()[1] in _CCONV):
            p.next()
        p._skip_param_attrs()
        rty = p.parse_type()
        if rty.k == "func":
            fty = rty
            rty = fty.ret
        elif rty.k == "ptr" and rty.elem.k == "func":
            rty = rty.elem.ret
        if p.peek()[1] == "asm":
            p.next()
            while p.peek()[0] == "id":
                p.next()
            asm = p.next()[1]
            p.expect(",")
            p.next()
            callee = ("asm", asm, None)
        else:
            callee = p.parse_value(None)
        p.expect("(")
        args = []
        if not p.accept(")"):
            while True:
                ty = p.parse_type()
                attrs = p._skip_param_attrs()
                v = p.parse_value(ty)
                args.append((v, attrs))
                if p.accept(")"):
                    break
                p.expect(",")
        return I(op, dest, rty, (callee, args), text=text)
    if op == "extractvalue":
        agg = p.parse_typed_value()
        idx = []
        while p.accept(","):
            idx.append(int(p.next()[1]))
        return I(op, dest, None, (agg,), x=tuple(idx), text=text)
    if op == "insertvalue":
        agg = p.parse_typed_value()
        p.expect(",")
        v = p.parse_typed_value()
        idx = []
        while p.accept(","):
            idx.append(int(p.next()[1]))
        return I(op, dest, agg[2], (agg, v), x=tuple(idx), text=text)
    if op == "extractelement":
        vec = p.parse_typed_value()
        p.expect(",")
        idx = p.parse_typed_value()
        return I(op, dest, None, (vec, idx), text=text)
    if op == "insertelement":
        vec = p.parse_typed_value()
        p.expect(",")
        v = p.parse_typed_value()
        p.expect(",")
        idx = p.parse_typed_value()
        return I(op, dest, vec[2], (vec, v, idx), text=text)
    if op == "shufflevector":
        a = p.parse_typed_value()
        p.expect(",")
        b = p.parse_typed_value()
        p.expect(",")
        m = p.parse_typed_value()
        return I(op, dest, None, (a, b, m), text=text)
    if op == "unreachable":
        return I(op, text=text)
    if op == "resume":
        return I(op, text=text)
    if op == "landingpad":
        return I(op, dest, None, (), text=text)
    if op == "fence":
        return I("fence", text=text)
    if op == "atomicrmw":
        p.accept("volatile")
        rop = p.next()[1]
        ptr = p.parse_typed_value()
        p.expect(",")
        v = p.parse_typed_value()
        return I("atomicrmw", dest, v[2], (ptr, v), x=rop, text=text)
    if op == "cmpxchg":
        p.accept("weak"); p.accept("volatile")
        ptr = p.parse_typed_value(); p.expect(",")
        cmp_ = p.parse_typed_value(); p.expect(",")
        new = p.parse_typed_value()
        return I("cmpxchg", dest, cmp_[2], (ptr, cmp_, new), text=text)
    if op == "freeze":
        v = p.parse_typed_value()
        return I("freeze", dest, v[2], (v,), text=text)
    if op == "va_arg":
        raise SyntaxError("va_arg unsupported")
    raise SyntaxError("unknown instruction %r in %r" % (op, text))
