"""Lock-set monitor (C19): every access of a public method to the shared object's footprint (its own storage and the
heap reachable from it) must happen while the object's mutex is held, or be an atomic operation.  Two accesses from
different logical threads race when at least one writes and they are not both protected."""
import bisect
import z3
from .interp import SV, SymPtr


class LockMonitor:
    def __init__(self):
        self.reported = set()

    # -- harness intrinsics
    def watch(self, eng, st, ptr, size, mutex, name):
        st.user["watch"] = dict(lo=ptr, hi=ptr + size, mutex=mutex, name=name)
        st.user["role"] = 0
        st.user["acc"] = []
        st.user["call"] = 0          # one public-method call per vf_thread marker
        st.user["epoch"] = 0         # number of times the object's mutex has been released so far

    def set_role(self, eng, st, k, label):
        st.user["role"] = k
        st.user["role_label"] = label
        st.user["call"] = st.user.get("call", 0) + 1

    # -- engine callbacks
    def lock(self, eng, st, m):
        pass

    def unlock(self, eng, st, m):
        w = st.user.get("watch")
        if w is not None and m == w["mutex"] and st.locks.get(m, 0) == 0:
            st.user["epoch"] = st.user.get("epoch", 0) + 1

    def _owned_heap(self, eng, st, w):
        """heap blocks reachable from the object through pointer-sized concrete cells"""
        bases = sorted(b for b in st.allocs if b >= 0x10000000 and b < 0x7000000000)
        sizes = [st.allocs[b] for b in bases]

        def block_of(p):
            i = bisect.bisect_right(bases, p) - 1
            if i >= 0 and bases[i] <= p < bases[i] + sizes[i]:
                return bases[i]
            return None
        seen = set()
        todo = [(w["lo"], w["hi"])]
        while todo:
            lo, hi = todo.pop()
            a = lo - (lo % 8)
            while a < hi:
                c = st.mem.get(a)
                if c is None:
                    c = eng.init_mem.get(a)
                if c is not None and c[1] == 8 and isinstance(c[0], int):
                    b = block_of(c[0])
                    if b is not None and b not in seen:
                        seen.add(b)
                        todo.append((b, b + st.allocs[b]))
                a += 8
        return seen, block_of

    def access(self, eng, st, addr, size, is_write, ins):
        w = st.user.get("watch")
        if w is None or st.user.get("role", 0) == 0:
            return
        if isinstance(addr, SymPtr):
            addr = addr.base
        if not isinstance(addr, int):
            return
        inobj = w["lo"] <= addr < w["hi"]
        if not inobj and addr >= 0x7000000000:
            return          # other stack memory
        if inobj:
            m = w["mutex"]
            if m <= addr < m + 40:
                return
            where = ("obj", addr - w["lo"])
        elif addr >= 0x10000000:
            owned, block_of = self._owned_heap(eng, st, w)
            b = block_of(addr)
            if b is None or b not in owned:
                return
            where = ("heap", b, addr - b)
        else:
            return
        locks = frozenset(m for m, d in st.locks.items() if d > 0)
        for m in st.locks:
            if m <= addr < m + 40:
                return      # the mutex words themselves
        held = bool(locks)
        atomic = "atomic" in ins.flags
        fn = st.frames[-1].fn.name
        # the public method at the bottom of the call chain issued by the harness
        top = None
        for f in st.frames[1:]:
            top = f.fn.name
            break
        st.user["acc"].append(dict(where=where, size=size, write=is_write, held=held, atomic=atomic, locks=locks,
                                   role=st.user["role"], label=st.user.get("role_label", ""), fn=fn, top=top,
                                   call=st.user.get("call", 0), epoch=st.user.get("epoch", 0),
                                   own=(w["mutex"] in locks),
                                   ins=ins.text[:120]))

    def finish(self, eng, st):
        """emit one obligation per racing pair (different roles, overlapping bytes, one write, not both protected)"""
        acc = st.user.get("acc", [])
        w = st.user.get("watch")
        if w is None:
            return
        n_pairs = 0
        by_where = {}
        for a in acc:
            key = a["where"][:2] if a["where"][0] == "heap" else ("obj",)
            by_where.setdefault(key, []).append(a)
        races = {}
        for key, lst in by_where.items():
            for i, a in enumerate(lst):
                if a["held"] and not a["write"] and False:
                    continue
                for b in lst[i + 1:]:
                    if a["role"] == b["role"]:
                        continue
                    if not (a["write"] or b["write"]):
                        continue
                    oa, ob = a["where"][-1], b["where"][-1]
                    if oa + a["size"] <= ob or ob + b["size"] <= oa:
                        continue
                    if a["atomic"] and b["atomic"]:
                        continue
                    if a["locks"] & b["locks"]:
                        continue
                    n_pairs += 1
                    k = tuple(sorted([(a["label"], a["held"] or a["atomic"]), (b["label"], b["held"] or b["atomic"])]))
                    races.setdefault(k, []).append((a, b))
        eng.stats["lockset_accesses"] = eng.stats.get("lockset_accesses", 0) + len(acc)
        eng.stats["lockset_unprotected"] = eng.stats.get("lockset_unprotected", 0) + \
            sum(1 for a in acc if not a["held"] and not a["atomic"])
        for k, pairs in races.items():
            a, b = pairs[0]
            unprot = [x for x in (a, b) if not (x["held"] or x["atomic"])]
            cid = "race:%s:%s|%s" % (w["name"], k[0][0], k[1][0])
            note = "%s %s in %s  <->  %s %s in %s (%d conflicting access pairs)" % (
                "write" if a["write"] else "read", "unprotected" if not (a["held"] or a["atomic"]) else "protected", _short(a["fn"]),
                "write" if b["write"] else "read", "unprotected" if not (b["held"] or b["atomic"]) else "protected", _short(b["fn"]), len(pairs))
            eng.add_obligation(st, cid, "race", z3.BoolVal(False), note=note)
        # atomicity of each call: a method that reads or writes the object under its mutex in two different critical sections
        # (mutex released in between) with at least one write is not atomic - another thread can run in the gap
        by_call = {}
        for a in acc:
            if a.get("own"):
                by_call.setdefault((a["call"], a["label"]), []).append(a)
        seen_labels = set()
        for (call, label), lst in sorted(by_call.items()):
            epochs = sorted(set(a["epoch"] for a in lst))
            if len(epochs) > 1 and any(a["write"] for a in lst) and label not in seen_labels:
                seen_labels.add(label)
                first = [a for a in lst if a["epoch"] == epochs[0]][0]
                last = [a for a in lst if a["epoch"] == epochs[-1]][-1]
                note = "%s: %s in %s and %s in %s happen in %d separate critical sections of the same mutex" % (
                    label, "write" if first["write"] else "read", _short(first["fn"]),
                    "write" if last["write"] else "read", _short(last["fn"]), len(epochs))
                eng.add_obligation(st, "atomicity:%s:%s" % (w["name"], label), "race", z3.BoolVal(False), note=note)
        # positive obligation: all accesses of all roles protected
        if not races:
            eng.stats["lockset_clean_paths"] = eng.stats.get("lockset_clean_paths", 0) + 1


def _short(name):
    import subprocess
    try:
        p = subprocess.run(["c++filt", name], capture_output=True, text=True)
        return p.stdout.strip()[:100]
    except Exception:
        return name[:80]
