"""Models of everything outside the IR module: harness intrinsics (vf_*), allocation,
LLVM intrinsics, libm, and the handful of libstdc++/ABI externals (DESIGN.md 2.4)."""
import math
import ctypes
import z3
from .interp import (SV, SymPtr, UNDEF, Inconclusive, PathEnd, Concretize, NOTHING, is_sym, to_signed,
                     f32round, realval, RV, IV, f64_to_bits)
from . import ir

_libm = ctypes.CDLL("libm.so.6")


def _cfun(name, nargs, flt):
    f = getattr(_libm, name)
    t = ctypes.c_float if flt else ctypes.c_double
    f.restype = t
    f.argtypes = [t] * nargs
    return f


class GuardedPtr:
    """ite(c, a, b) over pointers (what std::min/std::max on references compile to)"""
    __slots__ = ("c", "a", "b")

    def __init__(self, c, a, b):
        self.c, self.a, self.b = c, a, b

    def load(self, eng, st, ty):
        va = self.a.load(eng, st, ty) if isinstance(self.a, GuardedPtr) else eng.load(st, self.a, ty)
        vb = self.b.load(eng, st, ty) if isinstance(self.b, GuardedPtr) else eng.load(st, self.b, ty)
        return eng.ite(self.c, va, vb, ty)

    def store(self, eng, st, ty, v, guard=None):
        for side, ptr in ((True, self.a), (False, self.b)):
            g = self.c if side else z3.Not(self.c)
            if guard is not None:
                g = z3.And(guard, g)
            if isinstance(ptr, GuardedPtr):
                ptr.store(eng, st, ty, v, g)
            else:
                old = eng.load(st, ptr, ty)
                eng.store(st, ptr, ty, eng.ite(g, v, old, ty))

    def map(self, f):
        a = self.a.map(f) if isinstance(self.a, GuardedPtr) else f(self.a)
        b = self.b.map(f) if isinstance(self.b, GuardedPtr) else f(self.b)
        return GuardedPtr(self.c, a, b)

    def fold(self, eng, leaf):
        va = self.a.fold(eng, leaf) if isinstance(self.a, GuardedPtr) else leaf(self.a)
        vb = self.b.fold(eng, leaf) if isinstance(self.b, GuardedPtr) else leaf(self.b)
        return eng.ite(self.c, va, vb, ir.I1)


# ----------------------------------------------------------------------------- registry

EXACT = {}
PREFIX = []


def model(*names):
    def deco(f):
        for n in names:
            EXACT[n] = f
        return f
    return deco


def prefix(*names):
    def deco(f):
        for n in names:
            PREFIX.append((n, f))
        return f
    return deco


def install(eng):
    eng.models = dict(EXACT)


def lookup(eng, name):
    for p, f in PREFIX:
        if name.startswith(p):
            eng.models[name] = f
            return f
    return None


# ----------------------------------------------------------------------------- harness intrinsics

def _name(eng, st, p):
    return eng.read_cstr(st, p)


def _input(eng, st, name, kind):
    """kind: f64 f32 i64 i32 bool"""
    if eng.assignment is not None:
        if name not in eng.assignment:
            raise Inconclusive("no concrete value for input %s" % name)
        v = eng.assignment[name]
        if kind == "f64":
            return float(v)
        if kind == "f32":
            return f32round(float(v))
        if kind == "bool":
            return int(bool(v))
        n = 64 if kind == "i64" else 32
        return int(v) & ((1 << n) - 1)
    sv = eng.inputs.get(name)
    if sv is not None:
        if sv[1] != kind:
            raise Inconclusive("input %s used with two types" % name)
        return sv[0]
    if kind in ("f64", "f32"):
        if eng.fmode == "fp":
            e = z3.FP(name, z3.Float64() if kind == "f64" else z3.Float32())
            v = SV(e)
        else:
            e = z3.Real(name)
            d = {name: RV(1)} if name in eng.ad_vars else None
            v = SV(e, d=d)
    elif kind == "bool":
        v = SV(z3.Bool(name))
    else:
        n = 64 if kind == "i64" else 32
        if eng.imode == "bv":
            v = SV(z3.BitVec(name, n))
        else:
            e = z3.Int(name)       # vf_i64 / vf_i32 are signed in the harness API
            eng.side.append(z3.And(e >= -(1 << (n - 1)), e < (1 << (n - 1))))
            v = SV(None, w=n, s=e)
    eng.inputs[name] = (v, kind)
    eng.input_order.append(name)
    return v


@model("vf_f64")
def vf_f64(eng, st, fr, ins, a):
    return _input(eng, st, _name(eng, st, a[0]), "f64")


@model("vf_f32")
def vf_f32(eng, st, fr, ins, a):
    return _input(eng, st, _name(eng, st, a[0]), "f32")


@model("vf_i64")
def vf_i64(eng, st, fr, ins, a):
    return _input(eng, st, _name(eng, st, a[0]), "i64")


@model("vf_i32")
def vf_i32(eng, st, fr, ins, a):
    return _input(eng, st, _name(eng, st, a[0]), "i32")


@model("vf_bool")
def vf_bool(eng, st, fr, ins, a):
    return _input(eng, st, _name(eng, st, a[0]), "bool")


@model("vf_param")
def vf_param(eng, st, fr, ins, a):
    n = _name(eng, st, a[0])
    if n not in eng.params:
        raise Inconclusive("missing harness parameter %s" % n)
    return int(eng.params[n]) & (2 ** 64 - 1)


@model("vf_paramf")
def vf_paramf(eng, st, fr, ins, a):
    n = _name(eng, st, a[0])
    if n not in eng.params:
        raise Inconclusive("missing harness parameter %s" % n)
    return float(eng.params[n])


@model("vf_pi")
def vf_pi(eng, st, fr, ins, a):
    if eng.assignment is not None or eng.fmode == "fp":
        return math.pi
    from . import trig
    return SV(trig.PI(eng))


@model("vf_angle")
def vf_angle(eng, st, fr, ins, a):
    name = _name(eng, st, a[0])
    v = _input(eng, st, name, "f64")
    if isinstance(v, SV) and eng.fmode != "fp":
        from . import trig
        trig.declare_angle(eng, st, v, name, a[1], a[2])
    return v


@model("vf_eq")
def vf_eq(eng, st, fr, ins, a):
    x, y = a
    if x is UNDEF or y is UNDEF:
        raise Inconclusive("vf_eq(undef)")
    if not isinstance(x, SV) and not isinstance(y, SV):
        if x != x or y != y:
            return 0
        m = max(1.0, abs(x), abs(y))
        return int(abs(x - y) <= getattr(eng, "tol", 1e-9) * m)
    c = eng.fcmp("oeq", x, y, ir.DOUBLE)
    return c


def _angle_rel(eng, st, a, window):
    x, y = a
    if not isinstance(x, SV) and not isinstance(y, SV):
        d = x - y
        if window:
            return int(abs(d) <= getattr(eng, "tol", 1e-9))
        return int(abs(math.remainder(d, 2 * math.pi)) <= getattr(eng, "tol", 1e-9))
    from . import angles
    ex, ey = eng.fterm(x, ir.DOUBLE), eng.fterm(y, ir.DOUBLE)
    sn, cs = angles.sincos_term(eng, st, ex - ey)
    c = z3.And(sn == 0, cs == 1)
    if window:
        pi = angles.PI(eng)
        c = z3.And(c, ex - ey < 2 * pi, ex - ey > -2 * pi)
    return SV(c)


@model("vf_angle_eq")
def vf_angle_eq(eng, st, fr, ins, a):
    return _angle_rel(eng, st, a, True)


@model("vf_angle_congruent")
def vf_angle_congruent(eng, st, fr, ins, a):
    return _angle_rel(eng, st, a, False)


@model("vf_havoc")
def vf_havoc(eng, st, fr, ins, a):
    """k-th havocked loop-carried value of the loops summarised so far on this path (concrete runs: NaN)"""
    if eng.assignment is not None:
        return math.nan
    hv = st.user.get("havoc", [])
    k = a[0]
    if k >= len(hv):
        raise Inconclusive("vf_havoc(%d): only %d havocked loop values" % (k, len(hv)))
    return hv[k]


@model("vf_tol")
def vf_tol(eng, st, fr, ins, a):
    eng.tol = float(a[0])
    return None


@model("vf_havoc_is")
def vf_havoc_is(eng, st, fr, ins, a):
    if eng.assignment is None:
        st.user.setdefault("havoc_preset", {})[a[0]] = a[1]
    return None


@model("vf_watch")
def vf_watch(eng, st, fr, ins, a):
    if eng.lockmon is not None:
        eng.lockmon.watch(eng, st, a[0], a[1], a[2], _name(eng, st, a[3]))
    return None


@model("vf_thread")
def vf_thread(eng, st, fr, ins, a):
    if eng.lockmon is not None:
        eng.lockmon.set_role(eng, st, a[0], _name(eng, st, a[1]))
    return None


@model("vf_watch_end")
def vf_watch_end(eng, st, fr, ins, a):
    if eng.lockmon is not None:
        eng.lockmon.finish(eng, st)
        st.user["role"] = 0
    return None


@model("vf_symbolic")
def vf_symbolic(eng, st, fr, ins, a):
    return 0 if eng.assignment is not None else 1


@model("vf_near")
def vf_near(eng, st, fr, ins, a):
    x, y, tol = a
    if x is UNDEF or y is UNDEF:
        raise Inconclusive("vf_near(undef)")
    if not isinstance(x, SV) and not isinstance(y, SV):
        if x != x or y != y:
            return 0
        m = max(1.0, abs(x), abs(y))
        return int(abs(x - y) <= tol * m)
    return eng.fcmp("oeq", x, y, ir.DOUBLE)


@model("vf_enum")
def vf_enum(eng, st, fr, ins, a):
    v = a[0]
    if isinstance(v, int):
        return v
    return eng.concrete_int(st, v, "vf_enum value") & (2 ** 64 - 1)


@model("vf_assume")
def vf_assume(eng, st, fr, ins, a):
    c = a[0]
    if isinstance(c, int):
        if not c & 1:
            raise PathEnd("killed")
        return None
    if c is UNDEF:
        raise Inconclusive("assume(undef)")
    st.assume(c.e)
    if eng.feasible(st, z3.BoolVal(True)) is False:
        raise PathEnd("killed")
    return None


def _check(eng, st, a, lemma):
    c = a[0]
    cid = _name(eng, st, a[1])
    if isinstance(c, int):
        ok = bool(c & 1)
        eng.concrete_checks.append((cid, ok, eng.cur_entry))
        if not ok:
            eng.add_obligation(st, cid, "check", z3.BoolVal(False))
        else:
            eng.stats["concrete_true"] = eng.stats.get("concrete_true", 0) + 1
        return None
    if c is UNDEF:
        raise Inconclusive("check(undef) %s" % cid)
    if z3.is_true(z3.simplify(c.e)):
        eng.stats["simplified_true"] = eng.stats.get("simplified_true", 0) + 1
        eng.simplified.append((cid, eng.cur_entry, st.pid))
        return None
    eng.add_obligation(st, cid, "lemma" if lemma else "check", c.e)
    if lemma:
        st.assume(c.e)
    return None


@model("vf_check")
def vf_check(eng, st, fr, ins, a):
    return _check(eng, st, a, False)


@model("vf_lemma")
def vf_lemma(eng, st, fr, ins, a):
    return _check(eng, st, a, True)


@model("vf_d")
def vf_d(eng, st, fr, ins, a):
    v = a[0]
    var = _name(eng, st, a[1])
    if eng.assignment is not None:
        return 0.0
    if isinstance(v, SV) and v.d and var in v.d:
        return SV(v.d[var])
    return 0.0


def cut_value(eng, st, term, name):
    """fresh real standing for `term`; the definition is kept aside (st.user['defs']).  Terms with the same polynomial normal
    form (z3 simplify, sum of monomials, sorted) share one variable, so that an oracle written independently in the harness and
    the value computed by the code meet in the same variable exactly when they are the same polynomial."""
    if z3.is_rational_value(term) or z3.is_const(term):
        return term
    try:
        nf = z3.simplify(term, som=True, sort_sums=True)
        key = nf.sexpr() if len(term.sexpr()) < 200000 else None
    except z3.Z3Exception:
        key = None
    if key is not None and z3.is_rational_value(nf):
        return nf
    tbl = st.user.setdefault("cut_nf", {})
    if key is not None and key in tbl:
        return tbl[key]
    f = eng.fresh(name, z3.RealSort())
    st.user.setdefault("defs", []).append(f == term)
    if key is not None:
        tbl[key] = f
    return f


def _cut(eng, st, a, ty):
    p, n = a[0], a[1]
    name = _name(eng, st, a[2])
    if eng.assignment is not None or eng.fmode == "fp":
        return None
    for i in range(n):
        addr = p + i * ty.size
        v = eng.load(st, addr, ty)
        if isinstance(v, SV):
            f = cut_value(eng, st, v.e, name + "_%d" % i)
            eng.store(st, addr, ty, SV(f))
    return None


@model("vf_cut")
def vf_cut(eng, st, fr, ins, a):
    return _cut(eng, st, a, ir.DOUBLE)


@model("vf_cutf")
def vf_cutf(eng, st, fr, ins, a):
    return _cut(eng, st, a, ir.FLOAT)


@model("vf_observe_f64")
def vf_observe_f64(eng, st, fr, ins, a):
    eng.observations.append((_name(eng, st, a[0]), a[1]))
    return None


@model("vf_observe_i64")
def vf_observe_i64(eng, st, fr, ins, a):
    v = a[1]
    eng.observations.append((_name(eng, st, a[0]), to_signed(v, 64) if isinstance(v, int) else v))
    return None


@model("vf_reach")
def vf_reach(eng, st, fr, ins, a):
    eng.reached.append(dict(id=_name(eng, st, a[0]), pc=list(st.pc), path=st.pid, entry=eng.cur_entry,
                            trace=list(st.trace)))
    return None


# ----------------------------------------------------------------------------- allocation

@model("malloc", "_Znwm", "_Znam", "_ZnwmRKSt9nothrow_t", "_ZnamRKSt9nothrow_t")
def m_malloc(eng, st, fr, ins, a):
    n = eng.concrete_int(st, a[0], "allocation size")
    if n > (1 << 28):
        raise Inconclusive("huge allocation %d" % n)
    return eng.alloc(st, n, "heap")


@model("calloc")
def m_calloc(eng, st, fr, ins, a):
    n = eng.concrete_int(st, a[0], "calloc n") * eng.concrete_int(st, a[1], "calloc size")
    p = eng.alloc(st, n, "heap")
    eng.memset(st, p, 0, n)
    return p


@model("posix_memalign")
def m_posix_memalign(eng, st, fr, ins, a):
    n = eng.concrete_int(st, a[2], "allocation size")
    p = eng.alloc(st, n, "heap")
    eng.store(st, a[0], ir.PtrT(ir.I8), p)
    return 0


@model("realloc")
def m_realloc(eng, st, fr, ins, a):
    n = eng.concrete_int(st, a[1], "allocation size")
    p = eng.alloc(st, n, "heap")
    if a[0]:
        old = st.allocs.get(a[0], 0)
        eng.memcpy(st, p, a[0], min(old, n))
        st.allocs.pop(a[0], None)
    return p


@model("free", "_ZdlPv", "_ZdaPv", "_ZdlPvm", "_ZdaPvm")
def m_free(eng, st, fr, ins, a):
    p = a[0]
    if isinstance(p, int) and p:
        if p not in st.allocs:
            if p in st.freed:
                eng.add_obligation(st, "mem:double-free", "mem", z3.BoolVal(False))
        else:
            sz = st.allocs.pop(p)
            st.freed.add(p)
            # forget contents (keeps the cell map small)
            mem = st.mem
            if sz < 1 << 16:
                for x in range(p, p + sz):
                    mem.pop(x, None)
    return None


def _lockmon_range(eng, st, addr, n, is_write, ins):
    """bulk copies are accesses too (an optional<T> or a struct is copied with memcpy)"""
    if eng.lockmon is not None and isinstance(addr, int) and isinstance(n, int) and n > 0:
        if not hasattr(ins, "flags"):
            return
        eng.lockmon.access(eng, st, addr, n, is_write, ins)


@prefix("llvm.memcpy", "llvm.memmove")
def m_memcpy(eng, st, fr, ins, a):
    n = a[2]
    if not isinstance(n, int):
        n = eng.concrete_int(st, n, "memcpy length")
    _lockmon_range(eng, st, a[1], n, False, ins)
    _lockmon_range(eng, st, a[0], n, True, ins)
    eng.memcpy(st, a[0], a[1], n)
    return None


@model("memcpy", "memmove")
def m_memcpy2(eng, st, fr, ins, a):
    n = eng.concrete_int(st, a[2], "memcpy length")
    _lockmon_range(eng, st, a[1], n, False, ins)
    _lockmon_range(eng, st, a[0], n, True, ins)
    eng.memcpy(st, a[0], a[1], n)
    return a[0]


@prefix("llvm.memset")
def m_memset(eng, st, fr, ins, a):
    n = a[2]
    if not isinstance(n, int):
        n = eng.concrete_int(st, n, "memset length")
    _lockmon_range(eng, st, a[0], n, True, ins)
    eng.memset(st, a[0], a[1], n)
    return None


@model("memset")
def m_memset2(eng, st, fr, ins, a):
    eng.memset(st, a[0], a[1] & 0xFF, eng.concrete_int(st, a[2], "memset length"))
    return a[0]


@model("strlen")
def m_strlen(eng, st, fr, ins, a):
    return len(eng.read_cstr(st, a[0]))


@model("memcmp", "bcmp")
def m_memcmp(eng, st, fr, ins, a):
    n = eng.concrete_int(st, a[2], "memcmp length")
    for i in range(n):
        x = eng.load(st, a[0] + i, ir.I8)
        y = eng.load(st, a[1] + i, ir.I8)
        if not isinstance(x, int) or not isinstance(y, int):
            raise Inconclusive("memcmp on symbolic bytes")
        if x != y:
            return (1 if x > y else -1) & 0xFFFFFFFF
    return 0


@model("memchr")
def m_memchr(eng, st, fr, ins, a):
    n = eng.concrete_int(st, a[2], "memchr length")
    for i in range(n):
        x = eng.load(st, a[0] + i, ir.I8)
        if x == (a[1] & 0xFF):
            return a[0] + i
    return 0


# ----------------------------------------------------------------------------- no-ops

@prefix("llvm.lifetime.", "llvm.dbg.", "llvm.experimental.noalias", "llvm.assume", "llvm.prefetch",
        "llvm.invariant.", "llvm.stackrestore", "llvm.donothing", "llvm.var.annotation")
def m_nop(eng, st, fr, ins, a):
    return None


@model("__cxa_atexit", "_ZNSt8ios_base4InitC1Ev", "_ZNSt8ios_base4InitD1Ev", "__cxa_guard_abort",
       "__cxa_free_exception", "__cxa_end_catch", "_ZNSt8ios_baseD2Ev", "__cxa_thread_atexit")
def m_nop0(eng, st, fr, ins, a):
    return 0 if ins.dest else None


@prefix("llvm.load.relative")
def m_load_relative(eng, st, fr, ins, a):
    off = a[1]
    if not isinstance(off, int):
        off = eng.concrete_int(st, off, "relative table offset")
    off = to_signed(off, 64)
    rel = eng.load(st, a[0] + off, ir.I32)
    return (a[0] + to_signed(rel, 32)) & (2 ** 64 - 1)


@prefix("llvm.stacksave")
def m_stacksave(eng, st, fr, ins, a):
    return 0


@prefix("llvm.expect")
def m_expect(eng, st, fr, ins, a):
    return a[0]


@prefix("llvm.is.constant")
def m_isconst(eng, st, fr, ins, a):
    return 0


@prefix("llvm.objectsize")
def m_objsize(eng, st, fr, ins, a):
    return 2 ** 64 - 1


@model("__cxa_guard_acquire")
def m_guard_acq(eng, st, fr, ins, a):
    v = eng.load(st, a[0], ir.I8)
    return 0 if (isinstance(v, int) and v) else 1


@model("__cxa_guard_release")
def m_guard_rel(eng, st, fr, ins, a):
    eng.store(st, a[0], ir.I8, 1)
    return None


# ----------------------------------------------------------------------------- aborts

def _abort(kind):
    def f(eng, st, fr, ins, a):
        what = kind
        if kind == "assert":
            try:
                what = "assert: " + eng.read_cstr(st, a[0])[:120]
            except Exception:
                pass
        eng.add_obligation(st, "abort:" + kind, "abort", z3.BoolVal(False), note=what)
        raise PathEnd("abort")
    return f


EXACT["__assert_fail"] = _abort("assert")
EXACT["__cxa_throw"] = _abort("throw")
EXACT["__cxa_rethrow"] = _abort("throw")
EXACT["abort"] = _abort("abort")
EXACT["_ZSt9terminatev"] = _abort("terminate")
EXACT["__cxa_pure_virtual"] = _abort("pure-virtual")
EXACT["__stack_chk_fail"] = _abort("stack")
PREFIX.append(("_ZSt20__throw_", _abort("throw")))
PREFIX.append(("_ZSt19__throw_", _abort("throw")))
PREFIX.append(("_ZSt17__throw_", _abort("throw")))
PREFIX.append(("_ZSt16__throw_", _abort("throw")))
PREFIX.append(("_ZSt21__throw_", _abort("throw")))
PREFIX.append(("_ZSt24__throw_", _abort("throw")))
PREFIX.append(("_ZSt25__throw_", _abort("throw")))
PREFIX.append(("_ZSt28__throw_", _abort("throw")))
PREFIX.append(("llvm.trap", _abort("trap")))


@model("__cxa_allocate_exception")
def m_alloc_exc(eng, st, fr, ins, a):
    return eng.alloc(st, eng.concrete_int(st, a[0], "exception size") + 128, "heap")


# ----------------------------------------------------------------------------- integer intrinsics

def _mm(pred):
    def f(eng, st, fr, ins, a):
        ty = ins.ty.resolve()
        c = eng.icmp(st, pred, a[0], a[1], ty)
        if isinstance(c, int):
            return a[0] if c else a[1]
        return eng.ite(c.e, a[0], a[1], ty)
    return f


PREFIX.append(("llvm.smax.", _mm("sgt")))
PREFIX.append(("llvm.smin.", _mm("slt")))
PREFIX.append(("llvm.umax.", _mm("ugt")))
PREFIX.append(("llvm.umin.", _mm("ult")))


@prefix("llvm.abs.")
def m_iabs(eng, st, fr, ins, a):
    ty = ins.ty.resolve()
    neg = eng.ibin(st, "sub", 0, a[0], ty.n)
    c = eng.icmp(st, "slt", a[0], 0, ty)
    if isinstance(c, int):
        return neg if c else a[0]
    return eng.ite(c.e, neg, a[0], ty)


@prefix("llvm.umul.with.overflow", "llvm.uadd.with.overflow", "llvm.usub.with.overflow",
        "llvm.smul.with.overflow", "llvm.sadd.with.overflow", "llvm.ssub.with.overflow")
def m_with_overflow(eng, st, fr, ins, a):
    name = ins.a[0][1]
    n = ins.ty.resolve().elems[0].n
    x, y = a
    if not isinstance(x, int) or not isinstance(y, int):
        x = eng.concrete_int(st, x, "overflow-intrinsic operand")
        y = eng.concrete_int(st, y, "overflow-intrinsic operand")
    signed = name.startswith("llvm.s")
    if signed:
        x, y = to_signed(x, n), to_signed(y, n)
    r = x * y if "mul" in name else x + y if "add" in name else x - y
    if signed:
        ov = not (-(1 << (n - 1)) <= r < (1 << (n - 1)))
    else:
        ov = not (0 <= r < (1 << n))
    return [r & ((1 << n) - 1), int(ov)]


@prefix("llvm.ctlz.")
def m_ctlz(eng, st, fr, ins, a):
    n = ins.ty.resolve().n
    x = eng.concrete_int(st, a[0], "ctlz operand")
    return n - x.bit_length()


@prefix("llvm.cttz.")
def m_cttz(eng, st, fr, ins, a):
    n = ins.ty.resolve().n
    x = eng.concrete_int(st, a[0], "cttz operand")
    return n if x == 0 else (x & -x).bit_length() - 1


@prefix("llvm.ctpop.")
def m_ctpop(eng, st, fr, ins, a):
    return bin(eng.concrete_int(st, a[0], "ctpop operand")).count("1")


@prefix("llvm.bswap.")
def m_bswap(eng, st, fr, ins, a):
    n = ins.ty.resolve().n
    x = eng.concrete_int(st, a[0], "bswap operand")
    return int.from_bytes(x.to_bytes(n // 8, "little"), "big")


@prefix("llvm.fshl.", "llvm.fshr.")
def m_fsh(eng, st, fr, ins, a):
    n = ins.ty.resolve().n
    x, y, s = [eng.concrete_int(st, v, "funnel shift operand") for v in a]
    s %= n
    cat = (x << n) | y
    if ins.a[0][1].startswith("llvm.fshl"):
        return (cat >> (n - s)) & ((1 << n) - 1) if s else x
    return (cat >> s) & ((1 << n) - 1)


# ----------------------------------------------------------------------------- float intrinsics / libm

def _fty(ins):
    t = ins.ty.resolve()
    return t


def _isflt(ins):
    return ins.ty.resolve().k == "float"


def _conc1(name, pyf):
    cf64 = _cfun(name, 1, False)
    cf32 = _cfun(name + "f", 1, True)

    def f(x, flt):
        return cf32(x) if flt else cf64(x)
    return f


_C1 = {n: _conc1(n, None) for n in ("sin", "cos", "tan", "atan", "asin", "acos", "exp", "log", "sqrt",
                                      "floor", "ceil", "trunc", "round", "rint", "nearbyint", "fabs", "log10", "exp2", "log2", "sinh", "cosh", "tanh")}
_C2 = {}
for _n in ("atan2", "pow", "fmod", "hypot", "copysign", "fmin", "fmax"):
    _C2[_n] = (_cfun(_n, 2, False), _cfun(_n + "f", 2, True))


def _libm1(name):
    def f(eng, st, fr, ins, a):
        x = a[0]
        ty = _fty(ins)
        if x is UNDEF:
            return UNDEF
        if isinstance(x, list):
            return [f1(eng, st, v, ty.elem) for v in x]
        return f1(eng, st, x, ty)

    def f1(eng, st, x, ty):
        if not isinstance(x, SV):
            return _C1[name](x, ty.k == "float")
        from . import trig
        return trig.apply1(eng, st, name, x, ty)
    return f


def _libm2(name):
    def f(eng, st, fr, ins, a):
        x, y = a
        ty = _fty(ins)
        if x is UNDEF or y is UNDEF:
            return UNDEF
        if not isinstance(x, SV) and not isinstance(y, SV):
            c = _C2[name]
            return c[1](x, y) if ty.k == "float" else c[0](x, y)
        from . import trig
        return trig.apply2(eng, st, name, x, y, ty)
    return f


for _n in _C1:
    EXACT[_n] = _libm1(_n)
    EXACT[_n + "f"] = _libm1(_n)
    PREFIX.append(("llvm.%s." % _n, _libm1(_n)))
for _n in _C2:
    EXACT[_n] = _libm2(_n)
    EXACT[_n + "f"] = _libm2(_n)
PREFIX.append(("llvm.copysign.", _libm2("copysign")))
PREFIX.append(("llvm.minnum.", _libm2("fmin")))
PREFIX.append(("llvm.maxnum.", _libm2("fmax")))
PREFIX.append(("llvm.pow.", _libm2("pow")))


@prefix("llvm.fmuladd.", "llvm.fma.")
def m_fma(eng, st, fr, ins, a):
    ty = _fty(ins)
    return eng.fbin(st, "fadd", eng.fbin(st, "fmul", a[0], a[1], ty), a[2], ty)


@model("sincos")
def m_sincos(eng, st, fr, ins, a):
    s = EXACT["sin"]
    x = a[0]
    if isinstance(x, SV):
        from . import trig
        eng.store(st, a[1], ir.DOUBLE, trig.apply1(eng, st, "sin", x, ir.DOUBLE))
        eng.store(st, a[2], ir.DOUBLE, trig.apply1(eng, st, "cos", x, ir.DOUBLE))
    else:
        eng.store(st, a[1], ir.DOUBLE, _C1["sin"](x, False))
        eng.store(st, a[2], ir.DOUBLE, _C1["cos"](x, False))
    return None


# ----------------------------------------------------------------------------- threads (lock-set monitor hooks)

@model("pthread_mutex_lock", "pthread_mutex_trylock")
def m_lock(eng, st, fr, ins, a):
    st.locks[a[0]] = st.locks.get(a[0], 0) + 1
    if eng.lockmon is not None:
        eng.lockmon.lock(eng, st, a[0])
    return 0


@model("pthread_mutex_unlock")
def m_unlock(eng, st, fr, ins, a):
    st.locks[a[0]] = st.locks.get(a[0], 0) - 1
    if eng.lockmon is not None:
        eng.lockmon.unlock(eng, st, a[0])
    return 0


@model("__pthread_key_create", "pthread_self")
def m_pthread_key(eng, st, fr, ins, a):
    return 1


@model("_ZSt20__throw_system_errori")
def m_sys_err(eng, st, fr, ins, a):
    return _abort("throw")(eng, st, fr, ins, a)


# ----------------------------------------------------------------------------- cut points (DESIGN.md 2.2)

def cut_cells(eng, st, addr, n, ty, name):
    """replace n scalars at addr by fresh reals; the defining equalities are kept aside (st.user['defs'])"""
    defs = st.user.setdefault("defs", [])
    out = []
    for i in range(n):
        a = addr + i * ty.size
        v = eng.load(st, a, ty)
        if isinstance(v, SV):
            f = cut_value(eng, st, v.e, name + "_%d" % i)
            eng.store(st, a, ty, SV(f))
            out.append(f)
        else:
            out.append(v)
    return out


def cut_dynamic_matrix(eng, st, mat_addr, name, ty=ir.DOUBLE):
    """Eigen::Matrix<Scalar, Dynamic, Dynamic>: {Scalar* data; Index rows; Index cols}"""
    data = eng.load(st, mat_addr, ir.PtrT(ty))
    rows = eng.load(st, mat_addr + 8, ir.I64)
    cols = eng.load(st, mat_addr + 16, ir.I64)
    if not all(isinstance(x, int) for x in (data, rows, cols)):
        raise Inconclusive("cut of a matrix with symbolic shape")
    return cut_cells(eng, st, data, rows * cols, ty, name), rows, cols
