"""Symbolic interpreter for the IR parsed by vf.ir: concrete control and memory,
symbolic data (z3 terms).  See DESIGN.md section 2."""
import struct
import math
import bisect
import time
from fractions import Fraction
import z3

from . import ir
from .ir import Type


class Inconclusive(Exception):
    """Something the engine does not model; the path (and the claim) is incomplete."""


class PathEnd(Exception):
    def __init__(self, why):
        self.why = why


class Concretize(Exception):
    def __init__(self, sv, what):
        self.sv = sv
        self.what = what


class _Undef:
    def __repr__(self):
        return "undef"


UNDEF = _Undef()


class SV:
    """Symbolic value: z3 term plus optional metadata."""
    __slots__ = ("_e", "d", "box", "w", "s")

    def __init__(self, e, d=None, box=None, w=None, s=None):
        self._e = e     # z3 expr: Bool | BitVec | Int | Real | FP  (Int mode: unsigned-canonical value)
        self.d = d      # {input name: z3 Real expr} forward-mode derivative (real mode)
        self.box = box  # when a real-mode float travels through an integer register
        self.w = w      # bit width for Int-mode integers
        self.s = s      # Int mode: signed-view term when known (keeps nsw arithmetic free of wrap ites)

    @property
    def e(self):
        e = self._e
        if e is None and self.s is not None:
            n = self.w or 64
            e = self._e = z3.If(self.s < 0, self.s + (1 << n), self.s)
        return e

    def __repr__(self):
        s = str(self.e)
        return "SV(%s)" % (s if len(s) < 80 else s[:77] + "...")


class SymPtr:
    """base + symbolic byte offset (Int term)"""
    __slots__ = ("base", "off")

    def __init__(self, base, off):
        self.base, self.off = base, off


def is_sym(v):
    return isinstance(v, (SV, SymPtr))


def f32round(x):
    if x != x or x in (math.inf, -math.inf):
        return x
    try:
        return struct.unpack("<f", struct.pack("<f", x))[0]
    except OverflowError:
        return math.copysign(math.inf, x)


def f64_to_bits(x):
    return struct.unpack("<Q", struct.pack("<d", x))[0]


def bits_to_f64(b):
    return struct.unpack("<d", struct.pack("<Q", b & (2 ** 64 - 1)))[0]


def f32_to_bits(x):
    return struct.unpack("<I", struct.pack("<f", x))[0]


def bits_to_f32(b):
    return struct.unpack("<f", struct.pack("<I", b & (2 ** 32 - 1)))[0]


def to_signed(v, n):
    return v - (1 << n) if v >> (n - 1) else v


RV = z3.RealVal
IV = z3.IntVal


def realval(x):
    if isinstance(x, float):
        if x != x or x in (math.inf, -math.inf):
            raise Inconclusive("non-finite constant in real domain")
        fr = Fraction(x)
        return z3.RealVal(str(fr.numerator) + "/" + str(fr.denominator)) if fr.denominator != 1 else z3.RealVal(fr.numerator)
    if isinstance(x, int):
        return z3.RealVal(x)
    if isinstance(x, Fraction):
        return z3.RealVal(str(x.numerator) + "/" + str(x.denominator))
    raise TypeError(x)


class Frame:
    __slots__ = ("fn", "block", "ip", "locals", "ret_dest", "prev", "normal", "allocas", "visited", "summ", "marks")

    def __init__(self, fn, ret_dest=None, normal=None):
        self.fn = fn
        self.block = fn.blocks[fn.entry]
        self.ip = 0
        self.locals = {}
        self.ret_dest = ret_dest
        self.prev = None
        self.normal = normal
        self.allocas = []
        self.visited = {fn.entry}
        self.summ = {}
        self.marks = {}

    def clone(self):
        f = Frame.__new__(Frame)
        f.fn, f.block, f.ip = self.fn, self.block, self.ip
        f.locals = dict(self.locals)
        f.ret_dest, f.prev, f.normal = self.ret_dest, self.prev, self.normal
        f.allocas = list(self.allocas)
        f.visited = set(self.visited)
        f.summ = dict(self.summ)
        f.marks = dict(self.marks)
        return f


class State:
    def __init__(self):
        self.frames = []
        self.mem = {}
        self.pc = []          # list of z3 Bool
        self.pcids = set()
        self.heap_next = 0x10000000
        self.stack_next = 0x7000000000
        self.allocs = {}      # base -> size (live)
        self.freed = set()
        self.hints = {}       # concretisation hints: z3 ast id -> int
        self.steps = 0
        self.pid = 0
        self.trace = []       # decisions for evidence
        self.user = {}        # model-specific per-path data (copied shallowly)
        self.locks = {}       # lock monitor: mutex addr -> depth

    def assume(self, e):
        i = e.get_id()
        if i in self.pcids or z3.is_true(e):
            return
        self.pcids.add(i)
        self.pc.append(e)

    def clone(self):
        s = State.__new__(State)
        s.pcids = set(self.pcids)
        s.frames = [f.clone() for f in self.frames]
        s.mem = dict(self.mem)
        s.pc = list(self.pc)
        s.heap_next = self.heap_next
        s.stack_next = self.stack_next
        s.allocs = dict(self.allocs)
        s.freed = set(self.freed)
        s.hints = dict(self.hints)
        s.steps = self.steps
        s.pid = self.pid
        s.trace = list(self.trace)
        s.user = {k: (v.copy() if hasattr(v, "copy") else v) for k, v in self.user.items()}
        s.locks = dict(self.locks)
        return s


GLOBAL_BASE = 0x1000
FUNC_BASE = 0x600000000000


class Engine:
    def __init__(self, mod, fmode="real", imode="int", params=None, assignment=None, budget=None):
        self.mod = mod
        self.fmode = fmode      # real | fp | rounded
        self.imode = imode      # int | bv
        self.params = params or {}
        self.assignment = assignment  # concrete run: name -> value
        self.budget = dict(steps=5_000_000, paths=2000, time=600.0, feas_ms=2000)
        if budget:
            self.budget.update(budget)
        self.obligations = []
        self.notes = []
        self.observations = []
        self.reached = []
        self.inputs = {}        # name -> SV (shared across paths)
        self.input_order = []
        self.fresh_n = 0
        self.models = {}
        self.called = set()
        self.stats = dict(paths=0, forks=0, feas_queries=0, feas_time=0.0, steps=0, killed=0,
                          incomplete=0, errors=0)
        self.gaddr = {}
        self.faddr = {}
        self.addr2fn = {}
        self.init_mem = {}
        self.init_allocs = {}
        self._feas_cache = {}
        self._vars_cache = {}
        self._keep = []
        self.def_ids = set()
        self._nf_cache = {}
        self.branch_ids = set()      # conditions assumed because of a branch taken (not harness assumptions)
        self.errvars = []       # rounded-mode error variables (name, bound)
        self.side = []          # global side constraints (atoms characterisations) as (z3 bool)
        self.path_results = []
        self.ad_vars = set()
        self.shard = None
        self.summarize_loops = False
        self.fork_ptr_select = True
        self.shard_forks = False
        self.pre_hooks = {}
        self.call_override = None
        self._ovr_cache = {}
        self.contracts_hit = {}
        self._hook_cache = {}
        self.hooks_hit = {}
        self.snap_pi = True
        self.atom_cache = {}
        self.concrete_checks = []
        self.simplified = []
        self.cur_entry = None
        from . import models
        from . import stdlib  # noqa: F401  (registers the libstdc++ models)
        models.install(self)
        self.tokens = {}
        self.token_values = {}
        self._layout_globals()

    # ------------------------------------------------------------------ globals
    def _layout_globals(self):
        addr = GLOBAL_BASE
        for g in self.mod.globals.values():
            sz = max(g.ty.size, 1)
            al = max(g.ty.align, 8)
            addr = (addr + al - 1) // al * al
            self.gaddr[g.name] = addr
            self.init_allocs[addr] = sz
            addr += sz + 16
        fa = FUNC_BASE
        for name, fn in self.mod.functions.items():
            self.faddr[name] = fa
            self.addr2fn[fa] = fn
            fa += 16
        st = State()
        for g in self.mod.globals.values():
            if g.init is not None:
                self._store_const(st, self.gaddr[g.name], g.ty, g.init)
        self.init_mem = st.mem

    def _store_const(self, st, addr, ty, op):
        ty = ty.resolve()
        kind = op[0]
        if kind == "zero":
            self._store_zero(st, addr, ty)
        elif kind == "agg":
            if ty.k == "struct":
                for off, ety, ev in zip(ty.offsets, ty.elems, op[1]):
                    self._store_const(st, addr + off, ety, ev)
            else:
                es = ty.elem.size
                for i, ev in enumerate(op[1]):
                    self._store_const(st, addr + i * es, ty.elem, ev)
        elif kind == "cstr":
            for i, b in enumerate(op[1]):
                st.mem[addr + i] = (b, 1)
        elif kind == "undef":
            pass
        else:
            v = self.const_value(op, ty)
            st.mem[addr] = (v, ty.size)

    def _store_zero(self, st, addr, ty):
        ty = ty.resolve()
        if ty.k == "struct":
            for off, ety in zip(ty.offsets, ty.elems):
                self._store_zero(st, addr + off, ety)
        elif ty.k in ("array", "vector"):
            es = ty.elem.size
            for i in range(ty.n):
                self._store_zero(st, addr + i * es, ty.elem)
        elif ty.k in ("float", "double"):
            st.mem[addr] = (0.0, ty.size)
        else:
            st.mem[addr] = (0, ty.size)

    def const_value(self, op, ty=None):
        kind, pay, oty = op
        if ty is None:
            ty = oty
        if kind == "c":
            t = ty.resolve() if ty is not None else None
            if t is not None and t.k == "int":
                return pay & ((1 << t.n) - 1)
            if t is not None and t.k == "float":
                return float(pay)
            if t is not None and t.k == "double":
                return float(pay)
            return pay
        if kind == "g":
            if pay in self.gaddr:
                return self.gaddr[pay]
            if pay in self.faddr:
                return self.faddr[pay]
            if pay in self.mod.aliases:
                return self.const_value(self.mod.aliases[pay])
            raise Inconclusive("unknown global @%s" % pay)
        if kind == "undef":
            return UNDEF
        if kind == "zero":
            return self.zero_value(ty)
        if kind == "agg":
            t = ty.resolve()
            if t.k == "struct":
                return [self.const_value(e, et) for e, et in zip(pay, t.elems)]
            return [self.const_value(e, t.elem) for e in pay]
        if kind == "ce":
            return self.const_expr(pay)
        if kind == "cstr":
            return list(pay)
        if kind == "meta":
            return None
        raise Inconclusive("constant kind %r" % kind)

    def zero_value(self, ty):
        t = ty.resolve()
        if t.k == "struct":
            return [self.zero_value(e) for e in t.elems]
        if t.k in ("array", "vector"):
            return [self.zero_value(t.elem) for _ in range(t.n)]
        if t.k in ("float", "double"):
            return 0.0
        return 0

    def const_expr(self, pay):
        op = pay[0]
        if op == "getelementptr":
            bt, ops = pay[1], pay[2]
            base = self.const_value(ops[0])
            idx = [self.const_value(o) for o in ops[1:]]
            idx = [to_signed(i, o[2].resolve().n) if isinstance(i, int) else i for i, o in zip(idx, ops[1:])]
            return self.gep(base, bt, idx)
        if op in ("bitcast", "inttoptr", "ptrtoint", "addrspacecast"):
            return self.const_value(pay[1])
        if op in ("trunc", "zext"):
            v = self.const_value(pay[1])
            return v & ((1 << pay[2].resolve().n) - 1)
        if op in ("add", "sub"):
            a, b = [self.const_value(o) for o in pay[2]]
            n = pay[2][0][2].resolve().n
            return (a + b if op == "add" else a - b) & ((1 << n) - 1)
        raise Inconclusive("constant expression %s" % op)

    # ------------------------------------------------------------------ memory
    def alloc(self, st, size, kind):
        size = max(int(size), 1)
        if kind == "stack":
            base = st.stack_next
            st.stack_next += (size + 31) // 16 * 16
        else:
            base = st.heap_next
            st.heap_next += (size + 47) // 16 * 16
        st.allocs[base] = size
        return base

    def find_alloc(self, st, addr):
        # linear probing on 16-aligned bases is not possible in general; scan dict (small)
        a = st.allocs
        if addr in a:
            return addr, a[addr]
        ia = self.init_allocs
        if addr in ia:
            return addr, ia[addr]
        for base, sz in a.items():
            if base <= addr < base + sz:
                return base, sz
        for base, sz in ia.items():
            if base <= addr < base + sz:
                return base, sz
        return None, None

    def mem_get(self, st, addr):
        c = st.mem.get(addr)
        if c is None:
            c = self.init_mem.get(addr)
        return c

    def load(self, st, addr, ty):
        ty = ty.resolve()
        k = ty.k
        if isinstance(addr, SymPtr):
            return self.load_symptr(st, addr, ty)
        if isinstance(addr, SV):
            raise Inconclusive("load through symbolic pointer")
        if addr is UNDEF:
            raise Inconclusive("load through undef pointer")
        if k == "struct":
            return [self.load(st, addr + off, et) for off, et in zip(ty.offsets, ty.elems)]
        if k in ("array", "vector"):
            es = ty.elem.size
            return [self.load(st, addr + i * es, ty.elem) for i in range(ty.n)]
        size = ty.size
        c = self.mem_get(st, addr)
        if c is not None and c[1] == size:
            return self.reinterpret(c[0], ty)
        return self.load_slow(st, addr, ty)

    def reinterpret(self, v, ty):
        k = ty.k
        if v is UNDEF:
            return v
        if k == "int" or k == "ptr":
            if isinstance(v, int):
                return v
            if isinstance(v, float):
                return f64_to_bits(v) if ty.size == 8 else f32_to_bits(v)
            if isinstance(v, SymPtr):
                return v
            if isinstance(v, SV):
                if v.box is not None:
                    return v
                s = v.e.sort()
                sk = s.kind()
                if sk in (z3.Z3_BV_SORT, z3.Z3_INT_SORT, z3.Z3_BOOL_SORT):
                    return v
                if sk == z3.Z3_FLOATING_POINT_SORT:
                    return SV(z3.fpToIEEEBV(v.e))
                # real-valued float read through an integer register: box it
                return SV(None, box=v)
            raise Inconclusive("reinterpret %r as %r" % (v, ty))
        if k in ("float", "double"):
            if isinstance(v, float):
                return v
            if isinstance(v, int):
                return bits_to_f64(v) if k == "double" else bits_to_f32(v)
            if isinstance(v, SV):
                if v.box is not None:
                    if isinstance(v.box, tuple):
                        raise Inconclusive("float view of a multi-cell integer register")
                    return v.box
                sk = v.e.sort().kind()
                if sk in (z3.Z3_REAL_SORT, z3.Z3_FLOATING_POINT_SORT):
                    return v
                if sk == z3.Z3_BV_SORT and self.fmode == "fp":
                    return SV(z3.fpBVToFP(v.e, z3.Float64() if k == "double" else z3.Float32()))
            raise Inconclusive("reinterpret %r as %r" % (v, ty))
        return v

    def load_slow(self, st, addr, ty):
        size = ty.size
        # gather bytes from overlapping concrete cells
        out = []
        a = addr
        end = addr + size
        found_any = False
        while a < end:
            c = None
            for back in range(0, 16):
                cc = self.mem_get(st, a - back)
                if cc is not None and cc[1] > back:
                    c = (a - back, cc)
                    break
            if c is None:
                out.append(None)
                a += 1
                continue
            found_any = True
            base, (v, sz) = c
            if isinstance(v, float):
                v = f64_to_bits(v) if sz == 8 else f32_to_bits(v)
            if v is UNDEF:
                out.append(None)
                a += 1
                continue
            if not isinstance(v, int):
                if isinstance(v, SV) and v.box is None and v.e is not None and v.e.sort().kind() == z3.Z3_BV_SORT and base == addr and sz > size:
                    return self.reinterpret(SV(z3.Extract(size * 8 - 1, 0, v.e)), ty)
                if ty.k == "int":
                    tiled = self._tile_cells(st, addr, size)
                    if tiled is not None:
                        return SV(None, box=("multi", tiled))
                raise Inconclusive("partial load of a symbolic cell at %#x" % addr)
            out.append((v >> (8 * (a - base))) & 0xFF)
            a += 1
        if not found_any:
            return UNDEF
        if any(b is None for b in out):
            if all(b is None for b in out):
                return UNDEF
            out = [0 if b is None else b for b in out]   # partially initialised (padding)
        val = 0
        for i, b in enumerate(out):
            val |= b << (8 * i)
        return self.reinterpret(val, ty)

    def _tile_cells(self, st, addr, size):
        """cells exactly tiling [addr, addr+size) -> [(offset, value, size)] (an integer register that carries
        several smaller symbolic cells, e.g. a Vector2f copied through an i64)"""
        out = []
        a = addr
        while a < addr + size:
            c = self.mem_get(st, a)
            if c is None or a + c[1] > addr + size:
                return None
            out.append((a - addr, c[0], c[1]))
            a += c[1]
        return out

    def load_symptr(self, st, p, ty):
        base, sz = self.find_alloc(st, p.base)
        if base is None:
            raise Inconclusive("symbolic pointer outside any allocation")
        size = ty.size
        # candidate offsets: cells of this size present in the allocation
        cands = []
        rel0 = p.base - base
        for a in range(base, base + sz - size + 1, size):
            c = self.mem_get(st, a)
            if c is not None and c[1] == size:
                cands.append(a)
        if not cands:
            raise Inconclusive("symbolic index into empty buffer")
        off = p.off
        lo = cands[0] - p.base
        hi = cands[-1] - p.base
        self.add_obligation(st, "mem:symbolic-index-in-bounds", "mem",
                            z3.And(off >= lo, off <= hi), note="allocation %#x size %d" % (base, sz))
        st.assume(z3.And(off >= lo, off <= hi))
        res = None
        for a in reversed(cands):
            v = self.reinterpret(self.mem_get(st, a)[0], ty)
            if res is None:
                res = v
            else:
                res = self.ite(off == (a - p.base), v, res, ty)
        return res

    def store(self, st, addr, ty, v):
        ty = ty.resolve()
        k = ty.k
        if isinstance(addr, SymPtr):
            return self.store_symptr(st, addr, ty, v)
        if isinstance(addr, SV):
            raise Inconclusive("store through symbolic pointer")
        if k == "struct":
            if v is UNDEF:
                return
            for off, et, ev in zip(ty.offsets, ty.elems, v):
                self.store(st, addr + off, et, ev)
            return
        if k in ("array", "vector"):
            if v is UNDEF:
                return
            es = ty.elem.size
            for i, ev in enumerate(v):
                self.store(st, addr + i * es, ty.elem, ev)
            return
        size = ty.size
        mem = st.mem
        if isinstance(v, SV) and v.box is not None and isinstance(v.box, tuple) and v.box[0] == "multi":
            self._split_cells(st, addr, size)
            for a in range(addr, addr + size):
                mem.pop(a, None)
            for off, cv, csz in v.box[1]:
                mem[addr + off] = (cv, csz)
            return
        old = self.mem_get(st, addr)
        if old is not None and old[1] != size:
            self._split_cells(st, addr, size)
        elif old is None and size > 1:
            self._split_cells(st, addr, size)
        mem[addr] = (v, size)

    def _split_cells(self, st, addr, size):
        # remove / split cells overlapping [addr, addr+size)
        mem = st.mem
        for a in range(addr - 15, addr + size):
            c = self.mem_get(st, a)
            if c is None:
                continue
            v, sz = c
            if a + sz <= addr or a >= addr + size:
                continue
            if a == addr and sz == size:
                continue
            # split into bytes if concrete, else drop to UNDEF bytes
            if isinstance(v, float):
                v = f64_to_bits(v) if sz == 8 else f32_to_bits(v)
            if isinstance(v, int):
                for i in range(sz):
                    mem[a + i] = ((v >> (8 * i)) & 0xFF, 1)
            elif isinstance(v, SV) and v.e is not None and v.e.sort().kind() == z3.Z3_BV_SORT:
                for i in range(sz):
                    mem[a + i] = (SV(z3.Extract(8 * i + 7, 8 * i, v.e)), 1)
            else:
                for i in range(sz):
                    mem[a + i] = (UNDEF, 1)

    def store_symptr(self, st, p, ty, v):
        base, sz = self.find_alloc(st, p.base)
        if base is None:
            raise Inconclusive("symbolic pointer outside any allocation")
        size = ty.size
        cands = []
        for a in range(base, base + sz - size + 1, size):
            c = self.mem_get(st, a)
            if c is not None and c[1] == size:
                cands.append(a)
        if not cands:
            raise Inconclusive("symbolic store into empty buffer")
        off = p.off
        lo, hi = cands[0] - p.base, cands[-1] - p.base
        self.add_obligation(st, "mem:symbolic-index-in-bounds", "mem", z3.And(off >= lo, off <= hi))
        st.assume(z3.And(off >= lo, off <= hi))
        for a in cands:
            old = self.reinterpret(self.mem_get(st, a)[0], ty)
            st.mem[a] = (self.ite(off == (a - p.base), v, old, ty), size)

    def memcpy(self, st, dst, src, n):
        if n == 0:
            return
        if is_sym(dst) or is_sym(src) or is_sym(n):
            raise Inconclusive("memcpy with symbolic pointer/length")
        # collect source cells fully inside the range
        cells = []
        a = src
        end = src + n
        while a < end:
            c = self.mem_get(st, a)
            if c is None:
                # maybe inside a larger cell that starts earlier
                hit = None
                for back in range(1, 16):
                    cc = self.mem_get(st, a - back)
                    if cc is not None and cc[1] > back:
                        hit = (a - back, cc)
                        break
                if hit is None:
                    a += 1
                    continue
                base, (v, sz) = hit
                self._split_cells(st, base, 1)  # force split of that cell into bytes
                c = self.mem_get(st, a)
                if c is None:
                    a += 1
                    continue
            v, sz = c
            if a + sz > end:
                self._split_cells(st, a, 1)
                c = self.mem_get(st, a)
                v, sz = c
            cells.append((a - src, v, sz))
            a += sz
        # clear destination
        self._split_cells(st, dst, n)
        mem = st.mem
        for a in range(dst, dst + n):
            if a in mem:
                del mem[a]
            elif a in self.init_mem:
                mem[a] = (UNDEF, 1)
        for off, v, sz in cells:
            mem[dst + off] = (v, sz)

    def memset(self, st, dst, val, n):
        if is_sym(dst) or is_sym(n) or is_sym(val):
            raise Inconclusive("memset with symbolic argument")
        self._split_cells(st, dst, n)
        mem = st.mem
        a = dst
        # write as 8-byte words where aligned (zero fill of double / pointer arrays), else bytes
        v8 = 0
        for i in range(8):
            v8 |= (val & 0xFF) << (8 * i)
        while a < dst + n:
            if a % 8 == 0 and a + 8 <= dst + n:
                for i in range(1, 8):
                    mem.pop(a + i, None)
                mem[a] = (v8, 8)
                a += 8
            elif a % 4 == 0 and a + 4 <= dst + n:
                for i in range(1, 4):
                    mem.pop(a + i, None)
                mem[a] = (v8 & 0xFFFFFFFF, 4)
                a += 4
            else:
                mem[a] = (val & 0xFF, 1)
                a += 1

    def read_cstr(self, st, addr):
        out = bytearray()
        while True:
            c = self.mem_get(st, addr)
            if c is None:
                v = self.load_slow(st, addr, ir.I8)
            else:
                v = c[0] if c[1] == 1 else self.load_slow(st, addr, ir.I8)
            if not isinstance(v, int):
                raise Inconclusive("non-concrete C string")
            if v == 0:
                break
            out.append(v)
            addr += 1
        return out.decode("latin1")

    # ------------------------------------------------------------------ gep
    def gep(self, base, bt, idx):
        """base: int | SymPtr; idx: list of python ints (signed) or SV"""
        off = 0
        symoff = None
        t = bt
        first = True
        for i in idx:
            if first:
                scale = t.size
                first = False
                cur = None
            else:
                t = t.resolve()
                if t.k == "struct":
                    if not isinstance(i, int):
                        raise Inconclusive("symbolic struct index")
                    off += t.offsets[i]
                    t = t.elems[i]
                    continue
                t = t.elem
                scale = t.size
            if isinstance(i, int):
                off += i * scale
            else:
                term = self.idx_term(i) * scale
                symoff = term if symoff is None else symoff + term
        if symoff is None:
            if isinstance(base, SymPtr):
                return SymPtr(base.base, base.off + off) if off else base
            if base is UNDEF:
                return UNDEF
            return (base + off) & (2 ** 64 - 1)
        if isinstance(base, SymPtr):
            return SymPtr(base.base, base.off + symoff + off)
        return SymPtr(base, symoff + off)

    def idx_term(self, sv):
        """64-bit signed offset term in the native integer mode (BV64 or Int)"""
        e = sv.e
        if self.imode == "bv":
            n = e.size()
            return z3.SignExt(64 - n, e) if n < 64 else e
        if sv.s is not None:
            return sv.s
        w = sv.w or 64
        return z3.If(e >= (1 << (w - 1)), e - (1 << w), e)

    def int_as_signed_term(self, sv):
        """Int term (mathematical, signed interpretation) for a symbolic integer."""
        e = sv.e
        if self.imode == "bv":
            return z3.BV2Int(e, is_signed=True)
        if sv.s is not None:
            return sv.s
        w = sv.w or 64
        return z3.If(e >= (1 << (w - 1)), e - (1 << w), e)

    # ------------------------------------------------------------------ obligations
    def add_obligation(self, st, cid, kind, goal, note=None):
        self.obligations.append(dict(id=cid, kind=kind, goal=goal, pc=list(st.pc), path=st.pid,
                                     note=note, entry=self.cur_entry, fn=st.frames[-1].fn.name if st.frames else None,
                                     defs=list(st.user.get("defs", ()))))

    def fresh(self, prefix, sort):
        self.fresh_n += 1
        return z3.Const("%s!%d" % (prefix, self.fresh_n), sort)

    # ------------------------------------------------------------------ feasibility
    def expr_info(self, e):
        """(frozenset of variable names, theory flags) of a z3 expr, cached by ast id."""
        i = e.get_id()
        r = self._vars_cache.get(i)
        if r is not None:
            return r[1]
        vs = set()
        flags = set()
        seen = set()
        stack = [e]
        while stack:
            x = stack.pop()
            xi = x.get_id()
            if xi in seen:
                continue
            seen.add(xi)
            sk = x.sort().kind()
            if sk == z3.Z3_INT_SORT:
                flags.add("int")
            elif sk == z3.Z3_REAL_SORT:
                flags.add("real")
            elif sk == z3.Z3_BV_SORT:
                flags.add("bv")
            elif sk == z3.Z3_FLOATING_POINT_SORT:
                flags.add("fp")
            if z3.is_const(x) and x.decl().kind() == z3.Z3_OP_UNINTERPRETED:
                vs.add(x.decl().name())
            else:
                dk = x.decl().kind() if z3.is_app(x) else None
                if dk == z3.Z3_OP_MUL:
                    nonconst = [c for c in x.children() if not z3.is_rational_value(c) and not z3.is_int_value(c)]
                    if len(nonconst) > 1:
                        flags.add("nl")
                elif dk in (z3.Z3_OP_DIV, z3.Z3_OP_IDIV, z3.Z3_OP_MOD, z3.Z3_OP_REM):
                    ch = x.children()
                    if not (z3.is_rational_value(ch[1]) or z3.is_int_value(ch[1])):
                        flags.add("nl")
                stack.extend(x.children())
        r = (frozenset(vs), frozenset(flags))
        self._vars_cache[i] = (e, r)     # keeps e alive: z3 recycles ast ids of freed terms
        return r

    def pick_logic(self, flags):
        if "fp" in flags:
            return "QF_FP" if flags <= {"fp"} else ("QF_BVFP" if flags <= {"fp", "bv"} else None)
        if flags <= {"bv"}:
            return "QF_BV"
        if flags <= {"real", "nl"}:
            return "QF_NRA"
        if flags <= {"int"}:
            return "QF_LIA"
        if flags <= {"int", "nl"}:
            return "QF_NIA"
        if flags <= {"real", "int"}:
            return "QF_LIRA"
        return None

    def mark_def(self, e):
        """constraint that only characterises engine-created atoms (it restricts no harness input)"""
        self.def_ids.add(e.get_id())
        self._keep.append(e)
        return e

    def nf_key(self, e):
        """key of a real term by its polynomial normal form: equal polynomials built differently share their engine atoms
        (sqrt, exp, log, pow, opaque angles)"""
        c = self._nf_cache.get(e.get_id())
        if c is None:
            try:
                nf = z3.simplify(e, som=True, sort_sums=True)
                c = nf.sexpr()
                if len(c) > 100000:
                    c = "id%d" % e.get_id()
            except z3.Z3Exception:
                c = "id%d" % e.get_id()
            self._nf_cache[e.get_id()] = c
            self._keep.append(e)
        return c

    def slice_pc(self, pc, goal_exprs, strict=False):
        """cone of influence: conjuncts of pc (and side constraints) sharing variables with goal.
        strict: a branch condition is kept only when all its variables are already relevant (it never pulls new variables in) -
        fewer hypotheses, so only `unsat` answers of a strict query are used"""
        allc = list(pc) + self.side
        infos = [self.expr_info(c) for c in allc]
        vs = set()
        for g in goal_exprs:
            vs |= self.expr_info(g)[0]
        if not vs:
            return allc
        chosen = [False] * len(allc)
        changed = True
        # engine-created variables (sqrt!k, atan!k, sin(atan!k), loop_x!k ...) are defined by the constraints that
        # mention them: such a constraint matters only if one of its fresh variables is already relevant.
        # Constraints over harness inputs only are kept when they share a variable with the relevant set.
        nside = len(pc)
        fresh = [frozenset(v for v in cv if "!" in v) for cv, _ in infos]
        isdef = [(i >= nside) or (c.get_id() in self.def_ids) for i, c in enumerate(allc)]
        isbranch = [strict and (c.get_id() in self.branch_ids) for c in allc]
        while changed:
            changed = False
            for i, (cv, _) in enumerate(infos):
                if chosen[i]:
                    continue
                if fresh[i] and isdef[i]:
                    hit = bool(fresh[i] & vs)
                elif isbranch[i]:
                    hit = bool(cv) and cv <= vs
                else:
                    # branch conditions and assumptions restrict the inputs even when they mention atoms
                    hit = bool(cv & vs) or not cv
                if hit:
                    chosen[i] = True
                    if not cv <= vs:
                        vs |= cv
                        changed = True
        return [c for c, ch in zip(allc, chosen) if ch]

    def feasible(self, st, cond, timeout_ms=None, focus=None, need_model=False):
        """is pc ∧ cond satisfiable?  returns True / False / None (unknown)"""
        rel = self.slice_pc(st.pc, [cond] + (focus or []))
        key = (frozenset(c.get_id() for c in rel), cond.get_id())
        r = self._feas_cache.get(key, 0)
        if r != 0 and not (need_model and r is True):
            return r
        t0 = time.time()
        flags = set(self.expr_info(cond)[1])
        for c in rel:
            flags |= self.expr_info(c)[1]
        logic = self.pick_logic(flags)
        from . import solve
        res, model = solve.local_check(rel + [cond], logic, timeout_ms or self.budget["feas_ms"], flags)
        self.stats["feas_queries"] += 1
        self.stats["feas_time"] += time.time() - t0
        r = True if res == "sat" else False if res == "unsat" else None
        self._feas_cache[key] = r
        self._keep.append((rel, cond))
        if r is True:
            self._last_model = model
        return r

    # ------------------------------------------------------------------ operand evaluation
    def val(self, st, fr, op):
        kind = op[0]
        if kind == "l":
            try:
                return fr.locals[op[1]]
            except KeyError:
                raise Inconclusive("use of undefined local %%%s in %s" % (op[1], fr.fn.name))
        if kind == "c":
            pay = op[1]
            t = op[2]
            if t is not None and t.k == "int":
                return pay & ((1 << t.n) - 1)
            if t is not None and t.k in ("float", "double") and isinstance(pay, int):
                return float(pay)
            return pay
        return self.const_value(op)

    # ------------------------------------------------------------------ ite helper
    def ite(self, c, a, b, ty=None):
        """c: z3 Bool; a, b: values of IR type ty"""
        if isinstance(a, list):
            t = ty.resolve() if ty is not None else None
            if t is not None and t.k == "struct":
                return [self.ite(c, x, y, et) for x, y, et in zip(a, b, t.elems)]
            et = t.elem if t is not None else None
            return [self.ite(c, x, y, et) for x, y in zip(a, b)]
        if a is b:
            return a
        if a is UNDEF:
            return b
        if b is UNDEF:
            return a
        if not is_sym(a) and not is_sym(b) and a == b and not isinstance(a, float):
            return a
        t = ty.resolve() if ty is not None else None
        if isinstance(a, SymPtr) or isinstance(b, SymPtr) or (t is not None and t.k == "ptr"):
            return self.ite_ptr(c, a, b)
        if t is not None and t.k in ("float", "double"):
            ea, eb = self.fterm(a, t), self.fterm(b, t)
            d = None
            da = a.d if isinstance(a, SV) else None
            db = b.d if isinstance(b, SV) else None
            if da or db:
                d = {}
                for k in set(da or ()) | set(db or ()):
                    d[k] = z3.If(c, (da or {}).get(k, RV(0)), (db or {}).get(k, RV(0)))
            return SV(z3.If(c, ea, eb), d=d)
        n = t.n if t is not None and t.k == "int" else None
        if n is None:
            n = (a.w if isinstance(a, SV) and a.w else None) or (b.w if isinstance(b, SV) and b.w else None) or 64
        if isinstance(a, SV) and a.box is not None or isinstance(b, SV) and b.box is not None:
            # boxed reals through integer registers
            xa = a.box if isinstance(a, SV) and a.box is not None else None
            xb = b.box if isinstance(b, SV) and b.box is not None else None
            if xa is None or xb is None:
                raise Inconclusive("ite between boxed real and integer")
            return SV(None, box=self.ite(c, xa, xb, ir.DOUBLE))
        if self.imode == "int" and n > 1:
            sa = a.s if isinstance(a, SV) else (to_signed(a, n) if isinstance(a, int) else None)
            sb = b.s if isinstance(b, SV) else (to_signed(b, n) if isinstance(b, int) else None)
            if sa is not None and sb is not None and (isinstance(a, SV) and a._e is None or isinstance(b, SV) and b._e is None):
                return SV(None, w=n, s=z3.If(c, sa, sb))
        ea, eb = self.iterm(a, n), self.iterm(b, n)
        return SV(z3.If(c, ea, eb), w=n)

    def ite_ptr(self, c, a, b):
        # pointers: both concrete -> keep as a guarded pointer
        return GuardedPtr(c, a, b)

    # ------------------------------------------------------------------ term coercions
    def iterm(self, v, n):
        """z3 term for integer value v of width n in the current int mode"""
        if isinstance(v, SV):
            if v.box is not None:
                raise Inconclusive("integer arithmetic on the bits of a real-domain float")
            return v.e
        if v is UNDEF:
            raise Inconclusive("arithmetic on undef")
        if isinstance(v, SymPtr):
            return v.base + v.off
        if n == 1:
            return z3.BoolVal(bool(v))
        if self.imode == "bv":
            return z3.BitVecVal(v, n)
        return IV(v)

    def fterm(self, v, ty):
        if isinstance(v, SV):
            return v.e
        if v is UNDEF:
            raise Inconclusive("float arithmetic on undef")
        if self.fmode == "fp":
            return z3.FPVal(v, z3.Float64() if ty.k == "double" else z3.Float32())
        if self.snap_pi and v != 0 and ty.k == "double":
            from . import angles
            q = angles._snap_pi(v)
            if q is not None and abs(v) > 1e-3:
                return RV(str(q)) * angles.PI(self)
        return realval(v)

    def bterm(self, v):
        if isinstance(v, SV):
            return v.e
        return z3.BoolVal(bool(v))

    # ------------------------------------------------------------------ running
    def new_state(self):
        st = State()
        return st

    def run_entry(self, name, on_path_end=None):
        """explore all paths of entry function `name` (no arguments)"""
        fn = self.mod.functions.get(name)
        if fn is None or fn.declared_only:
            raise Inconclusive("entry %s not found" % name)
        self.cur_entry = name
        st = self.new_state()
        # global constructors
        self.run_ctors(st)
        st.frames.append(Frame(fn))
        work = [st]
        t0 = time.time()
        npaths = 0
        results = []
        while work:
            s = work.pop()
            if npaths >= self.budget["paths"] or time.time() - t0 > self.budget["time"]:
                self.stats["incomplete"] += 1 + len(work)
                results.append(("budget", "path/time budget exhausted with %d pending" % (len(work) + 1)))
                break
            npaths += 1
            s.pid = npaths
            try:
                self.run_state(s, work)
                results.append(("done", None))
            except PathEnd as pe:
                results.append((pe.why, None))
                if pe.why == "killed":
                    self.stats["killed"] += 1
            except Inconclusive as inc:
                self.stats["incomplete"] += 1
                loc = ""
                if s.frames:
                    f = s.frames[-1]
                    loc = " at %s:%s" % (f.fn.name, f.block.instrs[f.ip].text if f.ip < len(f.block.instrs) else "?")
                results.append(("inconclusive", str(inc) + loc))
            self.stats["steps"] += s.steps
        self.stats["paths"] += npaths
        self.path_results.extend((name, r, w) for r, w in results)
        return results

    def run_ctors(self, st):
        g = self.mod.globals.get("llvm.global_ctors")
        if g is None or g.init is None or g.init[0] != "agg":
            return
        for ent in g.init[1]:
            fnop = ent[1][1]
            if fnop[0] != "g":
                continue
            fn = self.mod.functions.get(fnop[1])
            if fn is None or fn.declared_only:
                continue
            sub = [st]
            st.frames.append(Frame(fn))
            self.cur_entry = "ctor:" + fn.name
            self.run_state(st, sub, until_depth=0)
        self.cur_entry = None

    def run_state(self, st, work, until_depth=0):
        frames = st.frames
        maxsteps = self.budget["steps"]
        dispatch = self._dispatch
        while len(frames) > until_depth:
            fr = frames[-1]
            ins = fr.block.instrs[fr.ip]
            st.steps += 1
            if st.steps > maxsteps:
                raise Inconclusive("step budget exhausted")
            try:
                dispatch[ins.op](self, st, fr, ins, work)
            except Concretize as cz:
                self.concretize(st, cz, work)
            except KeyError as ke:
                if ins.op not in dispatch:
                    raise Inconclusive("unsupported instruction %s" % ins.op)
                raise

    def concretize(self, st, cz, work):
        """enumerate the feasible values of a symbolic integer; fork one state per value"""
        e = cz.sv.s if cz.sv.s is not None else cz.sv.e
        vals = []
        extra = []
        limit = self.budget.get("concretize", 64)
        while True:
            cond = z3.And(*extra) if extra else z3.BoolVal(True)
            r = self.feasible(st, cond, timeout_ms=self.budget.get("enum_ms", 4000), focus=[e], need_model=True)
            if r is None:
                if not vals:
                    raise Inconclusive("cannot enumerate values of symbolic %s" % cz.what)
                # completeness of the enumeration not established: continue with the values found, and say so
                self.stats["incomplete"] += 1
                self.notes.append("enumeration of %s not proven complete after values %s" % (cz.what, sorted(vals)))
                self.path_results.append((self.cur_entry, "inconclusive",
                                          "enumeration of %s not proven complete after values %s" % (cz.what, sorted(vals))))
                break
            if r is False:
                break
            m = self._last_model
            if m is None:
                from . import solve
                v = solve.cli_value(self.slice_pc(st.pc, [cond, e == 0]) + [cond], e)
                if v is None:
                    raise Inconclusive("cannot obtain a model value for %s" % cz.what)
            else:
                v = m.eval(e, model_completion=True)
                if z3.is_bv_value(v) or z3.is_int_value(v):
                    v = v.as_long()
                else:
                    raise Inconclusive("non-numeric model value for %s" % cz.what)
            vals.append(v)
            extra.append(e != v)
            if len(vals) > limit:
                raise Inconclusive("more than %d feasible values for symbolic %s" % (limit, cz.what))
        vals.sort()
        sh = st.user.get("shard", self.shard)
        if sh is not None and sh[1] > 1:
            i, n = sh
            k = len(vals)
            if k >= n:
                vals = vals[i::n]
                st.user["shard"] = (0, 1)
            elif k > 0:
                g = i % k
                st.user["shard"] = (i // k, len(range(g, n, k)))
                vals = [vals[g]]
        if not vals:
            raise PathEnd("killed")
        self.stats["forks"] += len(vals) - 1
        others = []
        for v in vals[1:]:
            s2 = st.clone()
            s2.assume(e == v)
            s2.hints[e.get_id()] = v
            s2.trace.append("%s=%d" % (cz.what, v))
            others.append(s2)
        work.extend(reversed(others))
        st.assume(e == vals[0])
        st.hints[e.get_id()] = vals[0]
        st.trace.append("%s=%d" % (cz.what, vals[0]))

    def concrete_int(self, st, v, what):
        """value must be a concrete python int; symbolic ones are concretised by forking"""
        if isinstance(v, int):
            return v
        if isinstance(v, SV) and v.box is None:
            t = v.s if v.s is not None else v.e
            mask = (1 << (v.w or (t.size() if z3.is_bv(t) else 64))) - 1
            h = st.hints.get(t.get_id())
            if h is not None:
                return h & mask
            sv = z3.simplify(t)
            if z3.is_int_value(sv) or z3.is_bv_value(sv):
                return sv.as_long() & mask
            raise Concretize(v, what)
        raise Inconclusive("need concrete %s, got %r" % (what, v))

    # ------------------------------------------------------------------ control flow
    def goto(self, st, fr, label):
        prev = fr.block.name
        blk = fr.fn.blocks[label]
        if blk.phis:
            loc = fr.locals
            vals = []
            for ph in blk.phis:
                for v, lbl in ph.a:
                    if lbl == prev:
                        vals.append((ph.dest, self.val(st, fr, v)))
                        break
                else:
                    raise Inconclusive("phi without incoming for %s" % prev)
            for d, v in vals:
                loc[d] = v
        fr.prev = prev
        fr.block = blk
        fr.ip = 0
        fr.visited.add(label)
        if self.summarize_loops:
            fr.marks[label] = len(st.user.get("store_log", ()))

    def op_br(self, st, fr, ins, work):
        self.goto(st, fr, ins.x[0])

    def op_condbr(self, st, fr, ins, work):
        c = self.val(st, fr, ins.a[0])
        if isinstance(c, int):
            self.goto(st, fr, ins.x[0] if c & 1 else ins.x[1])
            return
        if c is UNDEF:
            raise Inconclusive("branch on undef")
        ce = c.e
        if self.summarize_loops and (ins.x[0] in fr.visited or ins.x[1] in fr.visited):
            if self.summarize_latch(st, fr, ins, ce):
                return
        t = self.feasible(st, ce)
        f = self.feasible(st, z3.Not(ce))
        if t is False and f is False:
            raise PathEnd("killed")
        if f is False:
            self.goto(st, fr, ins.x[0])
            return
        if t is False:
            self.goto(st, fr, ins.x[1])
            return
        # both possible (or unknown): fork  (sharded runs keep only their side at the first forks)
        nce = z3.Not(ce)
        self.branch_ids.add(ce.get_id())
        self.branch_ids.add(nce.get_id())
        self._keep.append(nce)
        sh = st.user.get("shard", self.shard)
        if sh is not None and sh[1] > 1 and self.shard_forks:
            i, n = sh
            g = i % 2
            st.user["shard"] = (i // 2, len(range(g, n, 2)))
            if g == 0:
                st.assume(ce)
                st.trace.append(fr.block.name)
                self.goto(st, fr, ins.x[0])
            else:
                st.assume(nce)
                st.trace.append("!" + fr.block.name)
                self.goto(st, fr, ins.x[1])
            return
        self.stats["forks"] += 1
        s2 = st.clone()
        s2.assume(nce)
        s2.trace.append("!" + fr.block.name)
        self.goto(s2, s2.frames[-1], ins.x[1])
        work.append(s2)
        st.assume(ce)
        st.trace.append(fr.block.name)
        self.goto(st, fr, ins.x[0])

    def summarize_latch(self, st, fr, ins, ce):
        """loop whose exit test is symbolic (convergence loops): abstract it by its arbitrary last iteration -
        havoc the header phis, run the body once more, assume the exit condition (partial correctness)"""
        back_true = ins.x[0] in fr.visited
        header = ins.x[0] if back_true else ins.x[1]
        exit_ = ins.x[1] if back_true else ins.x[0]
        key = (fr.block.name, fr.ip)
        if fr.summ.get(key):
            # second arrival: this was the last iteration
            st.assume(z3.Not(ce) if back_true else ce)
            fr.summ[key] = False
            self.stats["loops_summarised"] = self.stats.get("loops_summarised", 0) + 1
            self.goto(st, fr, exit_)
            return True
        blk = fr.fn.blocks[header]
        if not blk.phis:
            return False
        hv = st.user.setdefault("havoc", [])
        vals = []
        vn = {}          # value number (term of the value flowing around the back edge) -> its havoc variable

        def vkey(x):
            return ("t", x.e.get_id()) if isinstance(x, SV) else ("c", repr(x))
        latch = fr.block.name
        for ph in blk.phis:
            t = ph.ty.resolve()
            if t.k in ("float", "double") and self.fmode != "fp":
                inc = None
                for vop, lbl in ph.a:
                    if lbl == latch:
                        inc = self.val(st, fr, vop)
                pre = st.user.get("havoc_preset", {}).get(len(hv))
                if pre is not None:
                    v = pre if isinstance(pre, SV) else SV(self.fterm(pre, t))
                    st.trace.append("loop-carried %%%s stated equal to a harness value" % ph.dest)
                elif inc is not None and vkey(inc) in vn:
                    v = vn[vkey(inc)]
                else:
                    v = SV(self.fresh("loop_" + ph.dest, z3.RealSort()))
                if inc is not None:
                    vn.setdefault(vkey(inc), v)
                hv.append(v)
            else:
                raise Inconclusive("loop summary: non-float loop-carried value %%%s" % ph.dest)
            vals.append((ph.dest, v))
        # memory written since the header was entered is loop-carried state too: cells holding the value that flows around
        # the back edge share its havoc variable (e.g. a variable kept both in a register and in its stack slot)
        log = st.user.get("store_log", [])
        seen_cells = set()
        for addr, ty in log[fr.marks.get(header, 0):]:
            ty = ty.resolve()
            if (addr, ty.size) in seen_cells:
                continue
            seen_cells.add((addr, ty.size))
            base, _sz = self.find_alloc(st, addr)
            if base is None:
                continue          # a callee's frame, already released
            if ty.k not in ("float", "double") or self.fmode == "fp":
                raise Inconclusive("loop summary: non-float memory written in the loop at %#x" % addr)
            cur = self.load(st, addr, ty)
            k2 = vkey(cur)
            if k2 not in vn:
                vn[k2] = SV(self.fresh("loop_mem", z3.RealSort()))
                hv.append(vn[k2])
            self.store(st, addr, ty, vn[k2])
            st.trace.append("loop-carried memory cell %#x havocked" % addr)
        fr.summ[key] = True
        prev = fr.block.name
        for d, v in vals:
            fr.locals[d] = v
        fr.prev = prev
        fr.block = blk
        fr.ip = 0
        st.trace.append("summarised loop at %s" % header)
        return True

    def op_switch(self, st, fr, ins, work):
        c = self.val(st, fr, ins.a[0])
        default, cases = ins.x
        n = ins.a[0][2].resolve().n
        if not isinstance(c, int):
            c = self.concrete_int(st, c, "switch value")
        for cv, lbl in cases:
            if (cv & ((1 << n) - 1)) == c:
                self.goto(st, fr, lbl)
                return
        self.goto(st, fr, default)

    def op_ret(self, st, fr, ins, work):
        v = self.val(st, fr, ins.a[0]) if ins.a else None
        for a in fr.allocas:
            st.allocs.pop(a, None)
        st.frames.pop()
        if st.frames:
            caller = st.frames[-1]
            if fr.ret_dest is not None:
                caller.locals[fr.ret_dest] = v
            if fr.normal is not None:
                self.goto(st, caller, fr.normal)
            else:
                caller.ip += 1

    def op_unreachable(self, st, fr, ins, work):
        raise PathEnd("unreachable")

    def op_resume(self, st, fr, ins, work):
        raise PathEnd("resume")

    def op_landingpad(self, st, fr, ins, work):
        raise Inconclusive("landing pad entered")

    def op_fence(self, st, fr, ins, work):
        fr.ip += 1

    # ------------------------------------------------------------------ memory ops
    def op_alloca(self, st, fr, ins, work):
        cnt = 1
        if ins.a[0] is not None:
            cnt = self.concrete_int(st, self.val(st, fr, ins.a[0]), "alloca count")
        base = self.alloc(st, ins.ty.size * cnt, "stack")
        fr.allocas.append(base)
        fr.locals[ins.dest] = base
        fr.ip += 1

    def op_load(self, st, fr, ins, work):
        p = self.val(st, fr, ins.a[0])
        if isinstance(p, GuardedPtr):
            v = p.load(self, st, ins.ty)
        else:
            if self.lockmon is not None:
                self.lockmon.access(self, st, p, ins.ty.size, False, ins)
            v = self.load(st, p, ins.ty)
        fr.locals[ins.dest] = v
        fr.ip += 1

    def op_store(self, st, fr, ins, work):
        v = self.val(st, fr, ins.a[0])
        p = self.val(st, fr, ins.a[1])
        if isinstance(p, GuardedPtr):
            p.store(self, st, ins.ty, v)
        else:
            if self.lockmon is not None:
                self.lockmon.access(self, st, p, ins.ty.size, True, ins)
            self.store(st, p, ins.ty, v)
            if self.summarize_loops and isinstance(p, int):
                st.user.setdefault("store_log", []).append((p, ins.ty))
        fr.ip += 1

    def op_atomicrmw(self, st, fr, ins, work):
        p = self.val(st, fr, ins.a[0])
        v = self.val(st, fr, ins.a[1])
        ty = ins.ty.resolve()
        if self.lockmon is not None:
            ins.flags = ("atomic",)
            self.lockmon.access(self, st, p, ty.size, True, ins)
        old = self.load(st, p, ty)
        op = ins.x
        if op == "xchg":
            new = v
        elif op in ("add", "sub", "and", "or", "xor"):
            new = self.ibin(st, op, old, v, ty.n)
        else:
            raise Inconclusive("atomicrmw %s" % op)
        self.store(st, p, ty, new)
        if ins.dest:
            fr.locals[ins.dest] = old
        fr.ip += 1

    def op_cmpxchg(self, st, fr, ins, work):
        p = self.val(st, fr, ins.a[0])
        cmp_ = self.val(st, fr, ins.a[1])
        new = self.val(st, fr, ins.a[2])
        ty = ins.ty.resolve()
        if self.lockmon is not None:
            ins.flags = ("atomic",)
            self.lockmon.access(self, st, p, ty.size, True, ins)
        old = self.load(st, p, ty)
        eq = self.icmp(st, "eq", old, cmp_, ty)
        if not isinstance(eq, int):
            raise Inconclusive("cmpxchg with symbolic comparison")
        if eq:
            self.store(st, p, ty, new)
        if ins.dest:
            fr.locals[ins.dest] = [old, eq]
        fr.ip += 1

    def op_gep(self, st, fr, ins, work):
        ops = ins.a
        base = self.val(st, fr, ops[0])
        idx = []
        for o in ops[1:]:
            v = self.val(st, fr, o)
            if isinstance(v, int):
                v = to_signed(v, o[2].resolve().n)
            elif v is UNDEF:
                raise Inconclusive("gep with undef index")
            idx.append(v)
        if isinstance(base, GuardedPtr):
            fr.locals[ins.dest] = base.map(lambda b: self.gep(b, ins.ty, idx))
        else:
            fr.locals[ins.dest] = self.gep(base, ins.ty, idx)
        fr.ip += 1

    # ------------------------------------------------------------------ casts
    def op_cast(self, st, fr, ins, work):
        v = self.val(st, fr, ins.a[0])
        op = ins.op
        sty = ins.a[0][2].resolve()
        dty = ins.ty.resolve()
        fr.locals[ins.dest] = self.cast(st, op, v, sty, dty)
        fr.ip += 1

    def cast(self, st, op, v, sty, dty):
        if v is UNDEF:
            return UNDEF
        if isinstance(v, list):
            if op == "bitcast":
                # vector <-> scalar reinterpretation: go through memory
                tmp = self.alloc(st, max(sty.size, dty.size), "stack")
                self.store(st, tmp, sty, v)
                r = self.load(st, tmp, dty)
                st.allocs.pop(tmp, None)
                return r
            return [self.cast(st, op, x, sty.elem, dty.elem) for x in v]
        if op == "bitcast":
            if dty.k == "vector":
                tmp = self.alloc(st, max(sty.size, dty.size), "stack")
                self.store(st, tmp, sty, v)
                r = self.load(st, tmp, dty)
                st.allocs.pop(tmp, None)
                return r
            return self.reinterpret(v, dty)
        if op in ("ptrtoint", "inttoptr", "addrspacecast"):
            return v
        sym = isinstance(v, SV)
        if op == "trunc":
            n = dty.n
            if not sym:
                return v & ((1 << n) - 1)
            if isinstance(v, SymPtr):
                raise Inconclusive("trunc of symbolic pointer")
            return self.sym_trunc(v, sty.n, n)
        if op == "zext":
            if not sym:
                return v
            return self.sym_zext(v, sty.n, dty.n)
        if op == "sext":
            if not sym:
                return to_signed(v, sty.n) & ((1 << dty.n) - 1)
            return self.sym_sext(v, sty.n, dty.n)
        if op == "fpext":
            if not sym:
                return v
            if self.fmode == "fp":
                return SV(z3.fpToFP(z3.RNE(), v.e, z3.Float64()))
            return v
        if op == "fptrunc":
            if not sym:
                return f32round(v)
            if self.fmode == "fp":
                return SV(z3.fpToFP(z3.RNE(), v.e, z3.Float32()))
            if self.fmode == "rounded":
                return self.rnd(v, FLOAT_T)
            return v
        if op in ("sitofp", "uitofp"):
            if not sym:
                x = to_signed(v, sty.n) if op == "sitofp" else v
                r = float(x)
                return f32round(r) if dty.k == "float" else r
            return self.sym_itofp(v, sty.n, dty, op == "sitofp")
        if op in ("fptosi", "fptoui"):
            if not sym:
                if v != v or abs(v) == math.inf:
                    return UNDEF
                x = int(v)
                n = dty.n
                if op == "fptosi":
                    if not (-(1 << (n - 1)) <= x < (1 << (n - 1))):
                        return UNDEF
                else:
                    if not (0 <= x < (1 << n)):
                        # x86 behaviour for out-of-range is UB in IR
                        return UNDEF
                return x & ((1 << n) - 1)
            return self.sym_fptoi(st, v, sty, dty.n, op == "fptosi")
        raise Inconclusive("cast %s" % op)

    # ------------------------------------------------------------------ select / phi / aggregates
    def op_select(self, st, fr, ins, work):
        c = self.val(st, fr, ins.a[0])
        a = self.val(st, fr, ins.a[1])
        b = self.val(st, fr, ins.a[2])
        if isinstance(c, int):
            r = a if c & 1 else b
        elif c is UNDEF:
            raise Inconclusive("select on undef")
        elif isinstance(c, list):
            r = [x if cc & 1 else y for cc, x, y in zip(c, a, b)]
        elif self.fork_ptr_select and ins.ty.resolve().k == "ptr" and not (is_sym(a) or is_sym(b)) and a != b:
            # choosing between two concrete pointers on a symbolic condition (tree descent): one path per choice
            t = self.feasible(st, c.e)
            f = self.feasible(st, z3.Not(c.e))
            if t is False and f is False:
                raise PathEnd("killed")
            if f is False:
                r = a
            elif t is False:
                r = b
            else:
                self.stats["forks"] += 1
                s2 = st.clone()
                s2.assume(z3.Not(c.e))
                f2 = s2.frames[-1]
                f2.locals[ins.dest] = b
                f2.ip += 1
                work.append(s2)
                st.assume(c.e)
                r = a
        else:
            r = self.ite(c.e, a, b, ins.ty)
        fr.locals[ins.dest] = r
        fr.ip += 1

    def op_extractvalue(self, st, fr, ins, work):
        v = self.val(st, fr, ins.a[0])
        for i in ins.x:
            if v is UNDEF:
                break
            v = v[i]
        fr.locals[ins.dest] = v
        fr.ip += 1

    def op_insertvalue(self, st, fr, ins, work):
        agg = self.val(st, fr, ins.a[0])
        v = self.val(st, fr, ins.a[1])
        if agg is UNDEF:
            agg = self._undef_agg(ins.ty)

        def rec(a, idx):
            a = list(a)
            if len(idx) == 1:
                a[idx[0]] = v
            else:
                sub = a[idx[0]]
                a[idx[0]] = rec(sub, idx[1:])
            return a
        fr.locals[ins.dest] = rec(agg, ins.x)
        fr.ip += 1

    def _undef_agg(self, ty):
        t = ty.resolve()
        if t.k == "struct":
            return [self._undef_agg(e) for e in t.elems]
        if t.k in ("array", "vector"):
            return [self._undef_agg(t.elem) for _ in range(t.n)]
        return UNDEF

    def op_extractelement(self, st, fr, ins, work):
        v = self.val(st, fr, ins.a[0])
        i = self.val(st, fr, ins.a[1])
        fr.locals[ins.dest] = UNDEF if v is UNDEF else v[i]
        fr.ip += 1

    def op_insertelement(self, st, fr, ins, work):
        vec = self.val(st, fr, ins.a[0])
        v = self.val(st, fr, ins.a[1])
        i = self.val(st, fr, ins.a[2])
        if vec is UNDEF:
            vec = self._undef_agg(ins.ty)
        vec = list(vec)
        vec[i] = v
        fr.locals[ins.dest] = vec
        fr.ip += 1

    def op_shufflevector(self, st, fr, ins, work):
        a = self.val(st, fr, ins.a[0])
        b = self.val(st, fr, ins.a[1])
        m = ins.a[2]
        n = ins.a[0][2].resolve().n
        if a is UNDEF:
            a = [UNDEF] * n
        if b is UNDEF:
            b = [UNDEF] * n
        both = list(a) + list(b)
        if m[0] == "zero":
            mask = [0] * m[2].resolve().n
        elif m[0] == "undef":
            mask = [None] * m[2].resolve().n
        else:
            mask = [None if e[0] == "undef" else e[1] for e in m[1]]
        fr.locals[ins.dest] = [UNDEF if i is None else both[i] for i in mask]
        fr.ip += 1

    def op_freeze(self, st, fr, ins, work):
        v = self.val(st, fr, ins.a[0])
        if v is UNDEF:
            v = self.zero_value(ins.ty)
        fr.locals[ins.dest] = v
        fr.ip += 1

    # ------------------------------------------------------------------ calls
    def op_call(self, st, fr, ins, work):
        callee, args = ins.a
        if callee[0] == "asm":
            fr.locals[ins.dest] = self.zero_value(ins.ty) if ins.dest else None
            self._after_call(st, fr, ins)
            return
        if callee[0] == "g":
            name = callee[1]
            fn = self.mod.functions.get(name)
        else:
            target = self.val(st, fr, callee)
            if not isinstance(target, int):
                raise Inconclusive("indirect call through symbolic pointer")
            fn = self.addr2fn.get(target)
            if fn is None:
                raise Inconclusive("indirect call to unknown address %#x" % target)
            name = fn.name
        model = self.models.get(name)
        if model is None and self.call_override is not None:
            model = self._ovr_cache.get(name, 0)
            if model == 0:
                model = self._ovr_cache[name] = self.call_override(name)
        if model is None and fn is not None and fn.declared_only:
            model = self.find_model(name)
        if model is not None:
            argv = [self.val(st, fr, a) for a, _ in args]
            self.called.add(name)
            r = model(self, st, fr, ins, argv)
            if r is not NOTHING:
                if ins.dest is not None:
                    fr.locals[ins.dest] = r
                self._after_call(st, fr, ins)
            return
        if fn is None or fn.declared_only:
            raise Inconclusive("call to external function %s" % name)
        argv = [self.val(st, fr, a) for a, _ in args]
        self.called.add(name)
        if self.pre_hooks:
            hk = self._hook_cache.get(name, 0)
            if hk == 0:
                hk = None
                for sub, f in self.pre_hooks.items():
                    if sub in name:
                        hk = f
                        break
                self._hook_cache[name] = hk
            if hk is not None:
                self.hooks_hit[name] = self.hooks_hit.get(name, 0) + 1
                hk(self, st, argv, name)
        nf = Frame(fn, ret_dest=ins.dest, normal=(ins.x[0] if ins.op == "invoke" else None))
        loc = nf.locals
        for (pty, pname, pattrs), (aop, aattrs), av in zip(fn.params, args, argv):
            bv = pattrs.get("byval") or aattrs.get("byval")
            if bv:
                # callee gets its own copy
                cp = self.alloc(st, bv.size, "stack")
                nf.allocas.append(cp)
                self.memcpy(st, cp, av, bv.size)
                av = cp
            loc[pname] = av
        if len(st.frames) > 400:
            raise Inconclusive("call depth")
        st.frames.append(nf)

    def _after_call(self, st, fr, ins):
        if ins.op == "invoke":
            self.goto(st, fr, ins.x[0])
        else:
            fr.ip += 1

    def find_model(self, name):
        from . import models
        return models.lookup(self, name)

    lockmon = None


NOTHING = object()
FLOAT_T = ir.FLOAT
DOUBLE_T = ir.DOUBLE

from . import models as _models  # noqa: E402
GuardedPtr = _models.GuardedPtr
from . import arith  # noqa: E402  (adds arithmetic methods and the dispatch table)
arith.install(Engine)
