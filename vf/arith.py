"""Arithmetic, comparisons and conversions for concrete and symbolic values."""
import math
import z3
from .interp import (SV, SymPtr, UNDEF, Inconclusive, is_sym, to_signed, f32round, realval, RV, IV)
from . import ir


def _M(n):
    return 1 << n


def sview(e, n):
    """signed view of an unsigned-canonical Int term"""
    return z3.If(e >= _M(n - 1), e - _M(n), e)


def ucanon(r, n):
    """unsigned-canonical Int term of a signed value"""
    return z3.If(r < 0, r + _M(n), r)


def sterm(v, n):
    """signed-view Int term (or python int) of an Int-mode value"""
    if not isinstance(v, SV):
        return to_signed(v, n)
    if v.s is not None:
        return v.s
    return sview(v.e, n)


def _as_bool01(v):
    """Bool term c when v is (syntactically) If(c, 1, 0) or the constant 0/1"""
    if not isinstance(v, SV):
        return z3.BoolVal(bool(v)) if v in (0, 1) else None
    e = v._e
    if e is None or not z3.is_app(e) or e.decl().kind() != z3.Z3_OP_ITE:
        return None
    c, x, y = e.children()
    if z3.is_int_value(x) and z3.is_int_value(y):
        if x.as_long() == 1 and y.as_long() == 0:
            return c
        if x.as_long() == 0 and y.as_long() == 1:
            return z3.Not(c)
    return None


def _as_nbool01(v, n):
    """Bool term c when v is (syntactically) (2^n - 1) - If(c, 1, 0): all ones with the low bit cleared iff c"""
    if not isinstance(v, SV):
        return None
    e = v._e
    if e is None or not z3.is_app(e) or e.decl().kind() != z3.Z3_OP_SUB:
        return None
    ch = e.children()
    if len(ch) != 2 or not z3.is_int_value(ch[0]) or ch[0].as_long() != _M(n) - 1:
        return None
    w = SV(ch[1])
    return _as_bool01(w)


def install(E):
    from .models import GuardedPtr
    # ------------------------------------------------------------------ integer binops
    def op_ibin(self, st, fr, ins, work):
        a = self.val(st, fr, ins.a[0])
        b = self.val(st, fr, ins.a[1])
        ty = ins.ty.resolve()
        if ty.k == "vector":
            if a is UNDEF or b is UNDEF:
                r = UNDEF
            else:
                r = [self.ibin(st, ins.op, x, y, ty.elem.n, ins.flags) for x, y in zip(a, b)]
        else:
            r = self.ibin(st, ins.op, a, b, ty.n, ins.flags)
        fr.locals[ins.dest] = r
        fr.ip += 1

    def ibin(self, st, op, a, b, n, flags=()):
        if a is UNDEF or b is UNDEF:
            return UNDEF
        if isinstance(a, GuardedPtr) or isinstance(b, GuardedPtr):
            raise Inconclusive("integer arithmetic on a guarded pointer")
        if not is_sym(a) and not is_sym(b):
            return self.ibin_conc(op, a, b, n)
        if isinstance(a, SymPtr) or isinstance(b, SymPtr):
            return self.ibin_ptr(op, a, b, n)
        if n == 1:
            ea, eb = self.bterm(a), self.bterm(b)
            if op == "and":
                return SV(z3.And(ea, eb))
            if op == "or":
                return SV(z3.Or(ea, eb))
            if op in ("xor", "add", "sub"):
                return SV(z3.Xor(ea, eb))
            raise Inconclusive("i1 op %s" % op)
        if self.imode == "bv":
            return self.ibin_bv(st, op, a, b, n, flags)
        return self.ibin_int(st, op, a, b, n, flags)

    def ibin_conc(self, op, a, b, n):
        m = _M(n) - 1
        if op == "add":
            return (a + b) & m
        if op == "sub":
            return (a - b) & m
        if op == "mul":
            return (a * b) & m
        if op == "and":
            return a & b
        if op == "or":
            return a | b
        if op == "xor":
            return a ^ b
        if op == "shl":
            return (a << b) & m if b < n else UNDEF
        if op == "lshr":
            return a >> b if b < n else UNDEF
        if op == "ashr":
            return (to_signed(a, n) >> b) & m if b < n else UNDEF
        if op == "udiv":
            return a // b if b else UNDEF
        if op == "urem":
            return a % b if b else UNDEF
        if op in ("sdiv", "srem"):
            if b == 0:
                return UNDEF
            sa, sb = to_signed(a, n), to_signed(b, n)
            q = abs(sa) // abs(sb)
            if (sa < 0) != (sb < 0):
                q = -q
            if op == "sdiv":
                return q & m
            return (sa - q * sb) & m
        raise Inconclusive("int op %s" % op)

    def ibin_ptr(self, op, a, b, n):
        # pointer difference / offset arithmetic on ptrtoint values
        def parts(x):
            if isinstance(x, SymPtr):
                return x.base, x.off
            if isinstance(x, SV):
                return 0, self.idx_term(x)
            return x, 0
        ba, oa = parts(a)
        bb, ob = parts(b)
        if op == "sub":
            off = oa - ob
            base = ba - bb
        elif op == "add":
            off = oa + ob
            base = ba + bb
        else:
            raise Inconclusive("pointer arithmetic %s on symbolic pointer" % op)
        if isinstance(a, SymPtr) and isinstance(b, SymPtr) or (op == "sub" and isinstance(b, SymPtr)):
            # difference of two pointers: an integer
            tot = off + base
            if self.imode == "bv":
                return SV(tot if z3.is_bv(tot) else z3.Int2BV(tot, n))
            return SV(ucanon(tot, n), w=n)
        return SymPtr(base, off)

    def ibin_bv(self, st, op, a, b, n, flags):
        ea, eb = self.iterm(a, n), self.iterm(b, n)
        if op == "add":
            r = ea + eb
        elif op == "sub":
            r = ea - eb
        elif op == "mul":
            r = ea * eb
        elif op == "and":
            r = ea & eb
        elif op == "or":
            r = ea | eb
        elif op == "xor":
            r = ea ^ eb
        elif op == "shl":
            r = ea << eb
        elif op == "lshr":
            r = z3.LShR(ea, eb)
        elif op == "ashr":
            r = ea >> eb
        elif op == "udiv":
            r = z3.UDiv(ea, eb)
        elif op == "urem":
            r = z3.URem(ea, eb)
        elif op == "sdiv":
            r = ea / eb
        elif op == "srem":
            r = z3.SRem(ea, eb)
        else:
            raise Inconclusive("bv op %s" % op)
        if self.ub_checks and flags:
            if op in ("add", "sub", "mul"):
                if "nsw" in flags:
                    f = {"add": z3.BVAddNoOverflow, "sub": z3.BVSubNoOverflow, "mul": z3.BVMulNoOverflow}[op]
                    g = {"add": z3.BVAddNoUnderflow, "sub": z3.BVSubNoUnderflow, "mul": z3.BVMulNoUnderflow}[op]
                    ok = z3.And(f(ea, eb, True), g(ea, eb) if op != "sub" else g(ea, eb, True)) if op != "mul" else z3.And(f(ea, eb, True), g(ea, eb))
                    self.add_obligation(st, "ub:signed-overflow-" + op, "ub", ok)
        return SV(r)

    def ibin_int(self, st, op, a, b, n, flags):
        ca, cb = not isinstance(a, SV), not isinstance(b, SV)
        # identities keep terms small
        if cb and b == 0 and op in ("add", "sub", "or", "xor", "shl", "lshr", "ashr"):
            return a
        if ca and a == 0 and op in ("add", "or", "xor"):
            return b
        if op == "mul":
            if (cb and b == 1):
                return a
            if (ca and a == 1):
                return b
            if (cb and b == 0) or (ca and a == 0):
                return 0
        if cb and b == 1 and op in ("udiv", "sdiv"):
            return a
        M = _M(n)
        if op == "lshr" and cb and b == n - 1:
            # sign bit
            c = (a.s < 0) if a.s is not None else (a.e >= _M(n - 1))
            return SV(z3.If(c, IV(1), IV(0)), w=n)
        if op == "xor" and ((cb and b == M - 1) or (ca and a == M - 1)):
            o = a if cb else b
            bo = _as_bool01(o)
            if bo is not None:
                return SV(IV(M - 1) - z3.If(bo, IV(1), IV(0)), w=n)
        if op == "and":
            na, nb = _as_nbool01(a, n), _as_nbool01(b, n)
            ba, bb = _as_bool01(a), _as_bool01(b)
            if na is not None and bb is not None:
                return SV(z3.If(z3.And(z3.Not(na), bb), IV(1), IV(0)), w=n)
            if nb is not None and ba is not None:
                return SV(z3.If(z3.And(z3.Not(nb), ba), IV(1), IV(0)), w=n)
        if op in ("and", "or", "xor", "mul"):
            # 0/1-valued operands (zext of i1): stay in the Boolean world
            ba, bb = _as_bool01(a), _as_bool01(b)
            if ba is not None and bb is not None:
                c = z3.simplify(z3.And(ba, bb)) if op in ("and", "mul") else z3.Or(ba, bb) if op == "or" else z3.Xor(ba, bb)
                return SV(z3.If(c, IV(1), IV(0)), w=n)
        M = _M(n)
        nuw = "nuw" in flags
        nsw = "nsw" in flags
        if op == "mul":
            ba, bb = _as_bool01(a), _as_bool01(b)
            if ba is not None and bb is not None:
                return SV(z3.If(z3.And(ba, bb), IV(1), IV(0)), w=n)
        if op in ("add", "sub", "mul") and nsw and not nuw:
            sa, sb = sterm(a, n), sterm(b, n)
            r = sa + sb if op == "add" else sa - sb if op == "sub" else sa * sb
            if self.ub_checks:
                self.add_obligation(st, "ub:signed-overflow-" + op, "ub", z3.And(r >= -_M(n - 1), r < _M(n - 1)))
            return SV(None, w=n, s=r)
        ea, eb = self.iterm(a, n), self.iterm(b, n)

        def ubo(goal, what):
            if self.ub_checks:
                self.add_obligation(st, "ub:" + what, "ub", goal)

        if op in ("add", "sub", "mul"):
            if nsw and not nuw:
                sa = to_signed(a, n) if ca else sview(ea, n)
                sb = to_signed(b, n) if cb else sview(eb, n)
                r = sa + sb if op == "add" else sa - sb if op == "sub" else sa * sb
                ubo(z3.And(r >= -_M(n - 1), r < _M(n - 1)), "signed-overflow-" + op)
                return SV(ucanon(r, n), w=n)
            raw = ea + eb if op == "add" else ea - eb if op == "sub" else ea * eb
            if nuw:
                ubo(z3.And(raw >= 0, raw < M), "unsigned-overflow-" + op)
                return SV(raw, w=n)
            if op == "add":
                # adding a "negative" constant: treat as subtraction to keep terms small
                if cb and b >= _M(n - 1):
                    raw = ea - (M - b)
                    return SV(z3.If(raw < 0, raw + M, raw), w=n)
                if ca and a >= _M(n - 1):
                    raw = eb - (M - a)
                    return SV(z3.If(raw < 0, raw + M, raw), w=n)
                return SV(z3.If(raw >= M, raw - M, raw), w=n)
            if op == "sub":
                return SV(z3.If(raw < 0, raw + M, raw), w=n)
            return SV(raw % M, w=n)
        if op == "udiv":
            return SV(ea / eb, w=n)
        if op == "urem":
            return SV(ea % eb, w=n)
        if op in ("sdiv", "srem"):
            sa, sb = sterm(a, n), sterm(b, n)
            if cb:
                sbv = to_signed(b, n)
                if sbv > 0:
                    q = z3.If(sa >= 0, sa / sbv, -((-sa) / sbv))
                else:
                    q = z3.If(sa >= 0, -(sa / (-sbv)), (-sa) / (-sbv))
            else:
                q = z3.If(sb > 0, z3.If(sa >= 0, sa / sb, -((-sa) / sb)),
                          z3.If(sa >= 0, -(sa / (-sb)), (-sa) / (-sb)))
            if op == "sdiv":
                return SV(None, w=n, s=q)
            return SV(None, w=n, s=sa - q * sb)
        if op == "shl" and cb:
            if nuw:
                return SV(ea * _M(b), w=n)
            return SV((ea * _M(b)) % M, w=n)
        if op == "lshr" and cb:
            return SV(ea / _M(b), w=n)
        if op == "ashr" and cb:
            return SV(None, w=n, s=sterm(a, n) / _M(b))
        if op == "and":
            if cb or ca:
                k, e = (b, ea) if cb else (a, eb)
                if k & (k + 1) == 0:            # 2^j - 1
                    return SV(e % (k + 1), w=n)
                inv = (~k) & (M - 1)
                if inv & (inv + 1) == 0:        # clears low bits
                    return SV(e - e % (inv + 1), w=n)
        if op == "xor" and ((cb and b == M - 1) or (ca and a == M - 1)):
            return SV((M - 1) - (ea if cb else eb), w=n)
        if op in ("and", "or", "xor", "shl", "lshr", "ashr"):
            # bit-level fallback through bit-vectors
            ba, bb = z3.Int2BV(ea, n), z3.Int2BV(eb, n)
            r = {"and": lambda: ba & bb, "or": lambda: ba | bb, "xor": lambda: ba ^ bb, "shl": lambda: ba << bb,
                 "lshr": lambda: z3.LShR(ba, bb), "ashr": lambda: ba >> bb}[op]()
            return SV(z3.BV2Int(r), w=n)
        raise Inconclusive("integer op %s on symbolic Int-mode value" % op)

    # ------------------------------------------------------------------ icmp
    def op_icmp(self, st, fr, ins, work):
        a = self.val(st, fr, ins.a[0])
        b = self.val(st, fr, ins.a[1])
        ty = ins.ty.resolve()
        fr.locals[ins.dest] = self.icmp(st, ins.x, a, b, ty)
        fr.ip += 1

    def icmp(self, st, pred, a, b, ty):
        if a is UNDEF or b is UNDEF:
            return UNDEF
        n = ty.n if ty.k == "int" else 64
        if isinstance(a, GuardedPtr) or isinstance(b, GuardedPtr):
            g = a if isinstance(a, GuardedPtr) else b
            other = b if g is a else a
            swap = g is b

            def leaf(x):
                r = self.icmp(st, pred, other, x, ty) if swap else self.icmp(st, pred, x, other, ty)
                return r
            return g.fold(self, leaf)
        if not is_sym(a) and not is_sym(b):
            if pred == "eq":
                return int(a == b)
            if pred == "ne":
                return int(a != b)
            if pred[0] == "s":
                a, b = to_signed(a, n), to_signed(b, n)
            p = pred[1:]
            return int(a > b if p == "gt" else a >= b if p == "ge" else a < b if p == "lt" else a <= b)
        if isinstance(a, SymPtr) or isinstance(b, SymPtr):
            def pt(x):
                if isinstance(x, SymPtr):
                    return x.base + x.off
                if isinstance(x, SV):
                    return x.e
                return x
            ea, eb = pt(a), pt(b)
            if self.imode == "bv":
                # offsets are BV64
                pass
            if pred == "eq":
                return SV(ea == eb)
            if pred == "ne":
                return SV(ea != eb)
            p = pred[1:]
            return SV(ea > eb if p == "gt" else ea >= eb if p == "ge" else ea < eb if p == "lt" else ea <= eb)
        if n == 1:
            ea, eb = self.bterm(a), self.bterm(b)
            if pred == "eq":
                return SV(ea == eb)
            if pred == "ne":
                return SV(z3.Xor(ea, eb))
            raise Inconclusive("ordered compare on i1")
        if self.imode == "int":
            sa = a.s if isinstance(a, SV) else None
            sb = b.s if isinstance(b, SV) else None
            if pred[0] == "s" or (pred in ("eq", "ne") and (sa is not None or sb is not None) and
                                  (sa is not None or not isinstance(a, SV)) and (sb is not None or not isinstance(b, SV))):
                ea, eb = sterm(a, n), sterm(b, n)
                if isinstance(ea, int):
                    ea = IV(ea)
                if isinstance(eb, int):
                    eb = IV(eb)
                if pred == "eq":
                    return SV(ea == eb)
                if pred == "ne":
                    return SV(ea != eb)
                p = pred[1:]
                return SV(ea > eb if p == "gt" else ea >= eb if p == "ge" else ea < eb if p == "lt" else ea <= eb)
        ea, eb = self.iterm(a, n), self.iterm(b, n)
        if pred == "eq":
            return SV(ea == eb)
        if pred == "ne":
            return SV(ea != eb)
        p = pred[1:]
        if self.imode == "bv":
            if pred[0] == "u":
                f = {"gt": z3.UGT, "ge": z3.UGE, "lt": z3.ULT, "le": z3.ULE}[p]
                return SV(f(ea, eb))
            return SV(ea > eb if p == "gt" else ea >= eb if p == "ge" else ea < eb if p == "lt" else ea <= eb)
        if pred[0] == "s":
            ea = IV(to_signed(a, n)) if not isinstance(a, SV) else sview(ea, n)
            eb = IV(to_signed(b, n)) if not isinstance(b, SV) else sview(eb, n)
        return SV(ea > eb if p == "gt" else ea >= eb if p == "ge" else ea < eb if p == "lt" else ea <= eb)

    # ------------------------------------------------------------------ float ops
    def op_fbin(self, st, fr, ins, work):
        a = self.val(st, fr, ins.a[0])
        b = self.val(st, fr, ins.a[1])
        ty = ins.ty.resolve()
        if ty.k == "vector":
            if a is UNDEF or b is UNDEF:
                r = UNDEF
            else:
                r = [self.fbin(st, ins.op, x, y, ty.elem) for x, y in zip(a, b)]
        else:
            r = self.fbin(st, ins.op, a, b, ty)
        fr.locals[ins.dest] = r
        fr.ip += 1

    def fbin(self, st, op, a, b, ty):
        if a is UNDEF or b is UNDEF:
            return UNDEF
        if not isinstance(a, SV) and not isinstance(b, SV):
            try:
                if op == "fadd":
                    r = a + b
                elif op == "fsub":
                    r = a - b
                elif op == "fmul":
                    r = a * b
                elif op == "fdiv":
                    if b == 0:
                        if a == 0 or a != a:
                            r = math.nan
                        else:
                            r = math.copysign(math.inf, a) * math.copysign(1.0, b)
                    else:
                        r = a / b
                elif op == "frem":
                    r = math.fmod(a, b) if b != 0 and abs(a) != math.inf else math.nan
                else:
                    raise Inconclusive(op)
            except OverflowError:
                r = math.inf
            return f32round(r) if ty.k == "float" else r
        if self.fmode == "fp":
            ea, eb = self.fterm(a, ty), self.fterm(b, ty)
            rm = z3.RNE()
            if op == "fadd":
                return SV(z3.fpAdd(rm, ea, eb))
            if op == "fsub":
                return SV(z3.fpSub(rm, ea, eb))
            if op == "fmul":
                return SV(z3.fpMul(rm, ea, eb))
            if op == "fdiv":
                return SV(z3.fpDiv(rm, ea, eb))
            if op == "frem":
                raise Inconclusive("frem in fp mode")
        # real / rounded
        if op == "frem":
            from . import trig
            return trig.fmod(self, st, a, b, ty)
        ea, eb = self.fterm(a, ty), self.fterm(b, ty)
        da = a.d if isinstance(a, SV) else None
        db = b.d if isinstance(b, SV) else None
        d = None
        if op == "fadd":
            e = ea + eb
            if da or db:
                d = _dcomb(da, db, lambda x, y: x + y)
        elif op == "fsub":
            e = ea - eb
            if da or db:
                d = _dcomb(da, db, lambda x, y: x - y)
        elif op == "fmul":
            # constant * term keeps linear structure visible to the solver
            e = ea * eb
            if da or db:
                d = _dcomb(da, db, lambda x, y: x * eb + ea * y)
        elif op == "fdiv":
            havoc = None
            if isinstance(b, SV):
                z = self.feasible(st, eb == 0, timeout_ms=500)
                if z is False:
                    self.stats["def_proved_inline"] = self.stats.get("def_proved_inline", 0) + 1
                else:
                    self.add_obligation(st, "def:division-by-nonzero", "def", eb != 0)
                    if z is True:
                        # x/0 is inf/NaN in IEEE: continue with an unconstrained value instead of cutting the path
                        havoc = self.fresh("divzero", z3.RealSort())
                    else:
                        st.assume(eb != 0)
            elif b == 0:
                raise Inconclusive("division by concrete zero in real domain")
            e = ea / eb
            if havoc is not None:
                e = z3.If(eb == 0, havoc, e)
            if da or db:
                d = _dcomb(da, db, lambda x, y: (x * eb - ea * y) / (eb * eb))
        else:
            raise Inconclusive(op)
        r = SV(e, d=d)
        if self.fmode == "rounded":
            r = self.rnd(r, ty)
        return r

    def rnd(self, v, ty):
        """rounded mode: v*(1+delta), |delta| <= u"""
        u = "1/9007199254740992" if ty.k == "double" else "1/16777216"
        dl = self.fresh("rd", z3.RealSort())
        self.side.append(z3.And(dl >= -RV(u), dl <= RV(u)))
        self.errvars.append(str(dl))
        return SV(v.e * (1 + dl))

    def op_fneg(self, st, fr, ins, work):
        a = self.val(st, fr, ins.a[0])
        ty = ins.ty.resolve()
        fr.locals[ins.dest] = self.fneg(a, ty)
        fr.ip += 1

    def fneg(self, a, ty):
        if a is UNDEF:
            return a
        if isinstance(a, list):
            return [self.fneg(x, ty.elem) for x in a]
        if not isinstance(a, SV):
            return -a
        if self.fmode == "fp":
            return SV(z3.fpNeg(a.e))
        d = {k: -v for k, v in a.d.items()} if a.d else None
        return SV(-a.e, d=d)

    def op_fcmp(self, st, fr, ins, work):
        a = self.val(st, fr, ins.a[0])
        b = self.val(st, fr, ins.a[1])
        fr.locals[ins.dest] = self.fcmp(ins.x, a, b, ins.ty.resolve())
        fr.ip += 1

    def fcmp(self, pred, a, b, ty):
        if a is UNDEF or b is UNDEF:
            return UNDEF
        if not isinstance(a, SV) and not isinstance(b, SV):
            if pred == "true":
                return 1
            if pred == "false":
                return 0
            nan = a != a or b != b
            if pred == "ord":
                return int(not nan)
            if pred == "uno":
                return int(nan)
            if nan:
                return int(pred[0] == "u")
            p = pred[1:]
            return int(a == b if p == "eq" else a != b if p == "ne" else a > b if p == "gt" else
                       a >= b if p == "ge" else a < b if p == "lt" else a <= b)
        if self.fmode != "fp":
            # a concrete NaN / infinity against a symbolic (finite, real-domain) value is decided as IEEE does
            for x, other_is_a in ((a, False), (b, True)):
                if isinstance(x, float) and (x != x or x in (float("inf"), float("-inf"))):
                    if pred in ("ord", "uno"):
                        return int((pred == "uno") == (x != x))
                    if x != x:
                        return int(pred[0] == "u")
                    pp = pred[1:]
                    big = (x > 0)                  # x = +inf (big) or -inf
                    if pp == "eq":
                        return 0
                    if pp == "ne":
                        return 1
                    # compare a ? b with one side infinite and the other finite
                    a_gt_b = big if not other_is_a else (not big)
                    return int(a_gt_b if pp in ("gt", "ge") else (not a_gt_b))
        ea, eb = self.fterm(a, ty), self.fterm(b, ty)
        p = pred[1:]
        if self.fmode == "fp":
            nan = z3.Or(z3.fpIsNaN(ea), z3.fpIsNaN(eb))
            if pred == "ord":
                return SV(z3.Not(nan))
            if pred == "uno":
                return SV(nan)
            if p == "eq":
                c = z3.fpEQ(ea, eb)
            elif p == "ne":
                c = z3.And(z3.Not(z3.fpEQ(ea, eb)), z3.Not(nan))
            elif p == "gt":
                c = z3.fpGT(ea, eb)
            elif p == "ge":
                c = z3.fpGEQ(ea, eb)
            elif p == "lt":
                c = z3.fpLT(ea, eb)
            else:
                c = z3.fpLEQ(ea, eb)
            if pred[0] == "u":
                c = z3.Or(c, nan)
            return SV(c)
        if pred == "ord":
            return 1
        if pred == "uno":
            return 0
        return SV(ea == eb if p == "eq" else ea != eb if p == "ne" else ea > eb if p == "gt" else
                  ea >= eb if p == "ge" else ea < eb if p == "lt" else ea <= eb)

    # ------------------------------------------------------------------ symbolic conversions
    def sym_trunc(self, v, sn, n):
        e = v.e
        if self.imode == "bv":
            if n == 1:
                return SV(z3.Extract(0, 0, e) == 1)
            return SV(z3.Extract(n - 1, 0, e))
        if n == 1:
            b = _as_bool01(v)
            if b is not None:
                return SV(b)
            return SV(e % 2 == 1)
        b = _as_bool01(v)
        if b is not None:
            return SV(e, w=n)
        nb = _as_nbool01(v, sn)
        if nb is not None:
            return SV(IV(_M(n) - 1) - z3.If(nb, IV(1), IV(0)), w=n)
        return SV(e % _M(n), w=n)

    def sym_zext(self, v, sn, n):
        e = v.e
        if sn == 1:
            if self.imode == "bv":
                return SV(z3.If(e, z3.BitVecVal(1, n), z3.BitVecVal(0, n)))
            return SV(z3.If(e, IV(1), IV(0)), w=n)
        if self.imode == "bv":
            return SV(z3.ZeroExt(n - sn, e))
        return SV(e, w=n)

    def sym_sext(self, v, sn, n):
        e = v.e if (v.s is None or sn == 1 or self.imode == "bv") else None
        if sn == 1:
            if self.imode == "bv":
                return SV(z3.If(e, z3.BitVecVal(_M(n) - 1, n), z3.BitVecVal(0, n)))
            return SV(z3.If(e, IV(_M(n) - 1), IV(0)), w=n)
        if self.imode == "bv":
            return SV(z3.SignExt(n - sn, e))
        if v.s is not None:
            return SV(None, w=n, s=v.s)
        return SV(z3.If(e >= _M(sn - 1), e + (_M(n) - _M(sn)), e), w=n)

    def sym_itofp(self, v, sn, dty, signed):
        e = v.e
        if v.box is not None:
            raise Inconclusive("int->fp conversion of boxed float bits")
        if sn == 1:
            if self.fmode == "fp":
                s = z3.Float64() if dty.k == "double" else z3.Float32()
                return SV(z3.If(e, z3.FPVal(1.0, s), z3.FPVal(0.0, s)))
            return SV(z3.If(e, RV(1), RV(0)))
        if self.fmode == "fp":
            if self.imode != "bv":
                raise Inconclusive("fp mode needs bv integers")
            s = z3.Float64() if dty.k == "double" else z3.Float32()
            return SV(z3.fpSignedToFP(z3.RNE(), e, s) if signed else z3.fpUnsignedToFP(z3.RNE(), e, s))
        if self.imode == "bv":
            t = z3.BV2Int(e, is_signed=signed)
        else:
            t = sterm(v, sn) if signed else e
        r = SV(z3.ToReal(t))
        if self.fmode == "rounded" and (dty.k == "float" or sn > 53):
            r = self.rnd(r, dty)
        return r

    def sym_fptoi(self, st, v, sty, n, signed):
        e = v.e
        if self.fmode == "fp":
            if self.imode != "bv":
                raise Inconclusive("fp mode needs bv integers")
            return SV(z3.fpToSBV(z3.RTZ(), e, z3.BitVecSort(n)) if signed else z3.fpToUBV(z3.RTZ(), e, z3.BitVecSort(n)))
        t = z3.simplify(z3.If(e >= 0, z3.ToInt(e), -z3.ToInt(-e)))
        if signed:
            rng = z3.And(e > -RV(_M(n - 1)) - 1, e < RV(_M(n - 1)))
        else:
            rng = z3.And(e > -1, e < RV(_M(n)))
        self.add_obligation(st, "ub:fp-to-int-in-range", "ub", rng)
        st.assume(rng)
        if self.concretize_fptoi:
            v = self.concrete_int(st, SV(t, w=n), "float-to-integer result")
            return v & (_M(n) - 1)
        if self.imode == "bv":
            return SV(z3.Int2BV(t, n))
        return SV(None, w=n, s=t) if signed else SV(t, w=n)

    E.op_ibin = op_ibin
    E.ibin = ibin
    E.ibin_conc = ibin_conc
    E.ibin_ptr = ibin_ptr
    E.ibin_bv = ibin_bv
    E.ibin_int = ibin_int
    E.op_icmp = op_icmp
    E.icmp = icmp
    E.op_fbin = op_fbin
    E.fbin = fbin
    E.rnd = rnd
    E.op_fneg = op_fneg
    E.fneg = fneg
    E.op_fcmp = op_fcmp
    E.fcmp = fcmp
    E.sym_trunc = sym_trunc
    E.sym_zext = sym_zext
    E.sym_sext = sym_sext
    E.sym_itofp = sym_itofp
    E.sym_fptoi = sym_fptoi
    E.ub_checks = False
    E.concretize_fptoi = False

    d = {}
    for op in ("add", "sub", "mul", "udiv", "sdiv", "urem", "srem", "shl", "lshr", "ashr", "and", "or", "xor"):
        d[op] = E.op_ibin
    for op in ("fadd", "fsub", "fmul", "fdiv", "frem"):
        d[op] = E.op_fbin
    for op in ("bitcast", "ptrtoint", "inttoptr", "trunc", "zext", "sext", "fptrunc", "fpext", "fptoui",
               "fptosi", "uitofp", "sitofp", "addrspacecast"):
        d[op] = E.op_cast
    d.update({
        "fneg": E.op_fneg, "icmp": E.op_icmp, "fcmp": E.op_fcmp, "br": E.op_br, "condbr": E.op_condbr,
        "switch": E.op_switch, "ret": E.op_ret, "unreachable": E.op_unreachable, "resume": E.op_resume,
        "landingpad": E.op_landingpad, "alloca": E.op_alloca, "load": E.op_load, "store": E.op_store,
        "getelementptr": E.op_gep, "select": E.op_select, "extractvalue": E.op_extractvalue,
        "insertvalue": E.op_insertvalue, "extractelement": E.op_extractelement,
        "insertelement": E.op_insertelement, "shufflevector": E.op_shufflevector, "freeze": E.op_freeze,
        "call": E.op_call, "invoke": E.op_call, "fence": E.op_fence,
        "atomicrmw": E.op_atomicrmw, "cmpxchg": E.op_cmpxchg,
    })
    E._dispatch = d


def _dcomb(da, db, f):
    da = da or {}
    db = db or {}
    out = {}
    z = RV(0)
    for k in set(da) | set(db):
        out[k] = f(da.get(k, z), db.get(k, z))
    return out
