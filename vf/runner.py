"""Check driver: build -> translation validation -> symbolic execution -> portfolio ->
native replay -> verdicts -> evidence.  One instance per property check."""
import os
import sys
import json
import time
import math
import importlib
import traceback
from concurrent.futures import ThreadPoolExecutor
import z3

from . import build, solve, interp

ROOT = build.ROOT
KNOWN_FILE = os.path.join(ROOT, "known_findings.json")


class Entry:
    def __init__(self, name, fmode="real", imode="int", params=None, cap=None, budget=None, ad=(),
                 ub_checks=False, note="", concretize_fptoi=False, shard=None, summarize_loops=False, skip_ids=(), shard_forks=False, short=None, lockmon=None, expect_reach=True, kinds=None, setup=None, strict_first=True):
        self.name = name
        self.fmode = fmode
        self.imode = imode
        self.params = params or {}
        self.cap = cap
        self.budget = budget or {}
        self.ad = set(ad)
        self.ub_checks = ub_checks
        self.concretize_fptoi = concretize_fptoi
        self.shard = shard
        self.summarize_loops = summarize_loops
        self.skip_ids = tuple(skip_ids)
        self.shard_forks = shard_forks
        self.short = short
        self.note = note
        self.lockmon = lockmon
        self.expect_reach = expect_reach
        self.kinds = kinds      # obligation kinds to discharge (default: all)
        self.strict_first = strict_first
        self.setup = setup      # callable(engine) for model overrides

    def label(self):
        p = self.short if self.short is not None else ",".join("%s=%s" % kv for kv in sorted(self.params.items()))
        sh = "" if self.shard is None else ";shard %d/%d" % (self.shard[0] + 1, self.shard[1])
        return "%s[%s;%s/%s%s]" % (self.name, p, self.fmode, self.imode, sh)


def load_known():
    if not os.path.exists(KNOWN_FILE):
        return []
    with open(KNOWN_FILE) as f:
        return json.load(f)


class _Both:
    """helpers available to known-finding predicates, for python numbers and z3 terms alike"""
    @staticmethod
    def And(*a):
        if any(isinstance(x, z3.ExprRef) for x in a):
            return z3.And(*[x if isinstance(x, z3.ExprRef) else z3.BoolVal(bool(x)) for x in a])
        return all(a)

    @staticmethod
    def Or(*a):
        if any(isinstance(x, z3.ExprRef) for x in a):
            return z3.Or(*[x if isinstance(x, z3.ExprRef) else z3.BoolVal(bool(x)) for x in a])
        return any(a)

    @staticmethod
    def Not(a):
        return z3.Not(a) if isinstance(a, z3.ExprRef) else (not a)


def eval_pred(expr, env):
    g = {"And": _Both.And, "Or": _Both.Or, "Not": _Both.Not, "__builtins__": {}}
    return eval(expr, g, dict(env))


class Runner:
    def __init__(self, modname, tier, seed=0, only=None, verbose=False):
        self.chk = importlib.import_module("checks." + modname)
        self.pid = self.chk.PROPERTY
        self.tier = tier
        self.seed = seed
        self.only = only
        self.verbose = verbose
        self.t0 = time.time()
        self.cap = {"quick": 30.0, "thorough": 300.0}[tier]
        self.quick_cap = {"quick": 5.0, "thorough": 15.0}[tier]
        self.known = [k for k in load_known() if k.get("property") == self.pid]
        self.log_lines = []
        self.workdir = os.path.join(build.BUILD, "smt", self.pid)
        self.results = []
        self.violations = []
        self.known_hits = []
        self.tv = dict(vectors=0, agree=0, mismatch=[], native_fail=[])
        self.incomplete = []
        self.functions = set()
        self.witness = {}
        self.engine_stats = {}
        self.quiet = False
        self.replayed = {}
        self.max_replays = 2
        self.skipped = {}

    def log(self, *a):
        s = " ".join(str(x) for x in a)
        self.log_lines.append(s)
        if not self.quiet:
            print(s, flush=True)

    # ------------------------------------------------------------------ build
    def prepare(self):
        chk = self.chk
        noinline = getattr(chk, "NOINLINE", False)
        defines = getattr(chk, "DEFINES", ())
        t = time.time()
        with ThreadPoolExecutor(max_workers=2) as ex:
            f1 = ex.submit(build.build_ir, chk.HARNESS, chk.SOURCES, noinline, defines)
            f2 = ex.submit(build.build_native, chk.HARNESS, chk.SOURCES, defines)
            self.ll = f1.result()
            self.native = f2.result()
        self.mod = build.load_module(self.ll)
        if hasattr(self.chk, "prepare"):
            self.chk.prepare(self)
        self.log("[build] IR %s (%d functions) + native replay binary in %.1fs" %
                 (os.path.basename(self.ll), len(self.mod.functions), time.time() - t))

    # ------------------------------------------------------------------ translation validation
    def translation_validation(self):
        vecs = self.chk.tv_vectors(self.tier) if hasattr(self.chk, "tv_vectors") else []
        for entry, params, assignment in vecs:
            self.tv["vectors"] += 1
            eng = interp.Engine(self.mod, params=params, assignment=assignment)
            try:
                res = eng.run_entry(entry)
            except Exception as ex:
                res = [("inconclusive", "engine exception %r" % ex)]
            nat = build.run_native(self.native, entry, assignment, params)
            istream = [(n, v) for n, v in eng.observations]
            ichecks = [(c, ok) for c, ok, _ in eng.concrete_checks]
            ok = True
            why = None
            if any(r[0] == "inconclusive" for r in res):
                ok, why = False, "interpreter: %s" % [r for r in res if r[0] == "inconclusive"][0][1]
            elif nat["status"] not in ("ok", "assume-fail"):
                ok, why = False, "native status %s" % nat["status"]
            elif nat["status"] == "assume-fail":
                if not any(r[0] == "killed" for r in res):
                    ok, why = False, "native assume-fail but interpreter continued"
            else:
                if len(istream) != len(nat["obs"]) or any(
                        a[0] != b[0] or not _same(a[1], b[1]) for a, b in zip(istream, nat["obs"])):
                    ok, why = False, "observation streams differ: %s vs %s" % (istream[:6], nat["obs"][:6])
                elif ichecks != nat["checks"]:
                    ok, why = False, "check outcomes differ: %s vs %s" % (ichecks, nat["checks"])
            if ok:
                self.tv["agree"] += 1
            else:
                self.tv["mismatch"].append(dict(entry=entry, assignment=assignment, why=why))
                self.log("[tv] MISMATCH %s: %s" % (entry, why))
            for cid, cok in nat["checks"]:
                if not cok:
                    self.tv["native_fail"].append(dict(entry=entry, params=params, assignment=assignment, check=cid))
        self.log("[tv] %d vectors, %d agree bit-for-bit (observations and check outcomes)" %
                 (self.tv["vectors"], self.tv["agree"]))

    # ------------------------------------------------------------------ symbolic runs
    def explore(self, ent):
        """symbolic execution of one entry -> list of (ent, eng, obligation)"""
        allq = []
        t = time.time()
        eng = interp.Engine(self.mod, fmode=ent.fmode, imode=ent.imode, params=ent.params, budget=ent.budget)
        eng.ad_vars = ent.ad
        eng.ub_checks = ent.ub_checks
        eng.concretize_fptoi = ent.concretize_fptoi
        eng.shard = ent.shard
        eng.summarize_loops = ent.summarize_loops
        eng.shard_forks = ent.shard_forks
        if ent.lockmon:
            eng.lockmon = ent.lockmon()
        if ent.setup:
            ent.setup(eng)
        try:
            res = eng.run_entry(ent.name)
        except interp.Inconclusive as inc:
            res = [("inconclusive", str(inc))]
        except Exception as ex:
            res = [("inconclusive", "engine exception: %s" % traceback.format_exc()[-1500:])]
        self.functions |= eng.called
        res = list(res) + [(k, w) for (_, k, w) in eng.path_results if k == "inconclusive" and (k, w) not in res]
        inc = [r for r in res if r[0] in ("inconclusive", "budget")]
        for r in inc:
            self.incomplete.append(dict(entry=ent.label(), why=r[1]))
            self.log("[engine] INCOMPLETE %s: %s" % (ent.label(), r[1][:600]))
        obs = self.dedupe(eng.obligations, ent)
        for cid, _, pid in eng.simplified[:2]:
            self.results.append(dict(entry=ent.label(), id=cid, kind="check", path=pid, status="discharged",
                                     solver="z3-simplifier", secs=0.0, sample_only=True))
        for k, v in eng.stats.items():
            if isinstance(v, (int, float)):
                self.engine_stats[k] = self.engine_stats.get(k, 0) + v
        self.log("[engine] %s: %d paths (%d killed by assumptions, %d forks), %d obligations (%d distinct), "
                 "%d reach, %d steps, %.1fs (feasibility %.1fs/%d queries)" %
                 (ent.label(), eng.stats["paths"], eng.stats["killed"], eng.stats["forks"], len(eng.obligations),
                  len(obs), len(eng.reached), eng.stats["steps"], time.time() - t, eng.stats["feas_time"],
                  eng.stats["feas_queries"]))
        for o in obs:
            allq.append((ent, eng, o))
        # reachability witness
        self.witness[ent.label()] = dict(reached=len(eng.reached), sat=None)
        if eng.reached:
            allq.append((ent, eng, dict(id="witness:reach", kind="witness", goal=z3.BoolVal(False),
                                        pc=eng.reached[0]["pc"], path=eng.reached[0]["path"], entry=ent.name,
                                        note=None, fn=None)))
        elif ent.expect_reach:
            self.log("[engine] WARNING %s never reached vf_reach: harness is vacuous here" % ent.label())
        return allq

    def process_entry(self, idx):
        """worker (forked): explore + solve + replay one entry; returns plain data"""
        ent = self.entries[idx]
        self.log_lines = []
        self.results, self.violations, self.known_hits, self.incomplete = [], [], [], []
        self.functions, self.witness, self.engine_stats = set(), {}, {}
        t = time.time()
        allq = self.explore(ent)
        res = self.solve(allq)
        self.judge(res)
        self.log("[solve] %s: %d queries, %.1fs wall" % (ent.label(), len(res), time.time() - t))
        return dict(results=self.results, violations=self.violations,
                    known_hits=[(kf, rec) for kf, rec in self.known_hits], incomplete=self.incomplete,
                    functions=self.functions, witness=self.witness, engine_stats=self.engine_stats,
                    solver_time=self.pf.solver_time, log=self.log_lines)

    def dedupe(self, obligations, ent):
        seen = set()
        out = []
        for o in obligations:
            if ent.kinds is not None and o["kind"] not in ent.kinds:
                continue
            if ent.skip_ids and any(s in o["id"] for s in ent.skip_ids):
                self.skipped[o["id"]] = self.skipped.get(o["id"], 0) + 1
                continue
            key = (o["id"], o["goal"].get_id(), tuple(sorted(c.get_id() for c in o["pc"])))
            if key in seen:
                continue
            seen.add(key)
            out.append(o)
        return out

    # ------------------------------------------------------------------ solving
    def make_query(self, eng, o, with_defs, extra=(), strict=False):
        goal = o["goal"]
        neg = z3.Not(goal)
        pc = list(o["pc"]) + list(extra)
        if with_defs:
            pc += o.get("defs", [])
        rel = eng.slice_pc(pc, [neg], strict=strict)
        flags = set(eng.expr_info(neg)[1])
        for c in rel:
            flags |= eng.expr_info(c)[1]
        logic = solve.cli_logic(flags)
        asserts = rel + [neg]
        txt = solve.to_smt2(asserts, logic)
        txt5 = txt if logic else "(set-logic ALL)\n" + txt
        if "bv2int" in txt5 or "int2bv" in txt5 or "root-obj" in txt5 or "int_to_bv" in txt5 or "bv_to_int" in txt5:
            txt5 = None
        return dict(tag=o["id"].replace(":", "_").replace("/", "_")[:40], txt=txt, txt_cvc5=txt5,
                    asserts=asserts, flags=flags, logic=logic)

    def solve(self, allq):
        pf = solve.Portfolio(self.workdir, jobs=self.solver_jobs, quick_cap=self.quick_cap, cap=self.cap)
        self.pf = pf
        jobs = []
        for ent, eng, o in allq:
            cap = ent.cap or self.cap
            jobs.append((ent, eng, o))

        # z3's Python API is not thread-safe: build every query text serially, solve in threads
        prepared = []
        for ent, eng, o in jobs:
            q0 = self.make_query(eng, o, with_defs=False)
            q1 = self.make_query(eng, o, with_defs=True) if o.get("defs") else None
            # strict slices (branch conditions over irrelevant variables dropped): only their `unsat` is used
            qs = []
            if o["kind"] != "witness" and getattr(ent, "strict_first", True):
                s0 = self.make_query(eng, o, with_defs=False, strict=True)
                if s0["txt"] != q0["txt"]:
                    qs.append(s0)
                if q1 is not None:
                    s1 = self.make_query(eng, o, with_defs=True, strict=True)
                    if s1["txt"] != q1["txt"]:
                        qs.append(s1)
            prepared.append((ent, eng, o, q0, q1, qs))

        def work(job):
            ent, eng, o, q, q1, qs = job
            cap = min(ent.cap or self.cap, 10.0) if o["kind"] in ("ub", "def", "mem") else (ent.cap or self.cap)
            pre_secs = 0.0
            pre_answers = {}
            for k, sq in enumerate(qs):
                v, who, secs, answers = pf.solve_text(sq["txt"], sq["txt_cvc5"], sq["tag"], cap=min(cap, self.quick_cap), quick_only=True)
                pre_secs += secs
                pre_answers.update({"strict%d:%s" % (k, kk): a for kk, a in answers.items()})
                if v == "unsat":
                    return dict(ent=ent, eng=eng, o=o, verdict=v, solver=who, secs=pre_secs, answers=pre_answers, q=sq,
                                used_defs=False)
            v, who, secs, answers = pf.solve_text(q["txt"], q["txt_cvc5"], q["tag"], cap=cap)
            secs += pre_secs
            answers.update(pre_answers)
            used_defs = False
            if v != "unsat" and q1 is not None:
                q = q1
                v, who, secs2, answers2 = pf.solve_text(q["txt"], q["txt_cvc5"], q["tag"])
                secs += secs2
                answers.update({"defs:" + k: a for k, a in answers2.items()})
                used_defs = True
            return dict(ent=ent, eng=eng, o=o, verdict=v, solver=who, secs=secs, answers=answers, q=q,
                        used_defs=used_defs)

        with ThreadPoolExecutor(max_workers=self.solver_jobs) as ex:
            res = list(ex.map(work, prepared))
        return res

    # ------------------------------------------------------------------ replay
    def inputs_of(self, eng):
        d = {name: (sv.s if sv.s is not None else sv.e) for name, (sv, kind) in eng.inputs.items()}
        ang = getattr(eng, "_angles", None)
        if ang:
            for name in eng.inputs:
                a = ang["atoms"].get(name)
                if a is not None:
                    d["\0sin:" + name] = a.S
                    d["\0cos:" + name] = a.C
        return d

    def concretise(self, eng, model):
        out = {}
        for name, (sv, kind) in eng.inputs.items():
            v = model.get(name, 0)
            if kind in ("f64", "f32"):
                v = float(v)
                if ("\0sin:" + name) in model:
                    # angle atoms: the solver constrains (sin, cos), not the angle itself
                    import math as _m
                    ang = _m.atan2(float(model["\0sin:" + name]), float(model["\0cos:" + name]))
                    a = eng._angles["atoms"][name]
                    lo = a.lo if a.lo is not None else -_m.pi
                    hi = a.hi if a.hi is not None else _m.pi
                    k = round((v - ang) / (2 * _m.pi))
                    cand = ang + 2 * _m.pi * k
                    for c in (cand, ang, ang + 2 * _m.pi, ang - 2 * _m.pi):
                        if lo - 1e-12 <= c <= hi + 1e-12:
                            cand = c
                            break
                    v = min(max(cand, lo), hi) if lo <= hi else cand
                if kind == "f32":
                    v = interp.f32round(v)
            else:
                v = int(v)
            out[name] = v
        return out

    def replay(self, ent, assignment):
        return build.run_native(self.native, ent.name, assignment, ent.params)

    def judge(self, res):
        """turn solver results into verdicts; replay sat answers natively"""
        for r in res:
            ent, eng, o = r["ent"], r["eng"], r["o"]
            kind = o["kind"]
            rec = dict(entry=ent.label(), id=o["id"], kind=kind, path=o["path"], solver=r["solver"],
                       secs=round(r["secs"], 3), answers=r["answers"], note=o.get("note"))
            if kind == "witness":
                self.witness[ent.label()]["sat"] = True if r["verdict"] == "sat" else False if r["verdict"] == "unsat" else None
                rec["status"] = "witness-" + r["verdict"]
                self.results.append(rec)
                continue
            if r["verdict"] == "unsat":
                rec["status"] = "discharged"
                self.results.append(rec)
                continue
            if r["verdict"] != "sat":
                rec["status"] = "unknown"
                self.results.append(rec)
                continue
            self.handle_sat(r, rec)
            self.results.append(rec)

    def handle_sat(self, r, rec, depth=0):
        ent, eng, o = r["ent"], r["eng"], r["o"]
        key = (ent.label(), o["id"])
        nrep = self.replayed.get(key, 0)
        if nrep >= self.max_replays and depth == 0:
            rec["status"] = "sat-not-replayed"
            rec["why"] = "same entry and obligation id already replayed %d times" % nrep
            return
        self.replayed[key] = nrep + 1
        if hasattr(self.chk, "custom_replay") and o["kind"] in getattr(self.chk, "CUSTOM_REPLAY_KINDS", ()):
            confirmed, info = self.chk.custom_replay(self, ent, o)
            rec["native"] = info
            if not confirmed:
                rec["status"] = "unconfirmed"
                rec["why"] = "custom replay did not reproduce: %s" % (info,)
                return
            kf = self.match_known(ent, o, {}, [], dict(status="ok"))
            rp = self.write_replay(ent, o, {}, [o["id"]], dict(status=str(info.get("status"))))
            rec["replay"] = rp
            if kf is not None:
                rec["status"] = "known-finding"
                rec["known"] = kf.get("what")
                self.known_hits.append((kf, rec))
            else:
                rec["status"] = "violated"
                self.violations.append(rec)
            return
        inputs = self.inputs_of(eng)
        # model over the full path condition so that every input gets a consistent value
        full = list(o["pc"]) + eng.side + ([] if not r["used_defs"] else o.get("defs", [])) + [z3.Not(o["goal"])]
        model = solve.get_model(full, r["q"]["logic"], inputs, timeout_ms=int(self.cap * 1000))
        if model is None:
            model = solve.get_model(r["q"]["asserts"], r["q"]["logic"], inputs, timeout_ms=int(self.cap * 1000))
        if model is None:
            rec["status"] = "unconfirmed"
            rec["why"] = "sat but no model could be extracted"
            return
        def run_model(model):
            assignment = self.concretise(eng, model)
            nat = self.replay(ent, assignment)
            failing = [c for c, ok in nat["checks"] if not ok]
            if o["kind"] in ("check", "lemma"):
                confirmed = o["id"] in failing
            else:
                confirmed = bool(failing) or nat["status"].startswith("crash") or nat["status"] == "timeout"
            if o["kind"] in ("check", "lemma") and nat["status"] in ("timeout",) or nat["status"].startswith("crash"):
                confirmed = True
            return assignment, nat, failing, confirmed
        assignment, nat, failing, confirmed = run_model(model)
        if not confirmed and o["kind"] in ("check", "lemma"):
            # solvers return the simplest point of the violating region (zeros, repeated values), which is often degenerate for
            # the real code (rank-deficient systems, ties): ask once more for a generic point - all real inputs of the query
            # non-zero and pairwise distinct - before calling the model unconfirmed
            qvars = set()
            for a in r["q"]["asserts"]:
                qvars |= eng.expr_info(a)[0]
            reals = [c for nme, c in inputs.items() if not nme.startswith("\0") and z3.is_real(c) and str(c) in qvars][:24]
            if reals:
                generic = [c != 0 for c in reals] + [reals[i] != reals[i + 1] for i in range(len(reals) - 1)] + [reals[i] != reals[i + 2] for i in range(len(reals) - 2)]
                seen_models = [model]
                for attempt in range(3):
                    # later attempts also move every input away from the values already tried
                    away = []
                    for pm in seen_models[1:]:
                        for nme, c in inputs.items():
                            if z3.is_real(c) and str(c) in qvars and isinstance(pm.get(nme), (int, float)):
                                try:
                                    away.append(c != z3.RealVal(repr(float(pm[nme]))))
                                except Exception:
                                    pass
                    m2 = solve.get_model(full + generic + away, r["q"]["logic"], inputs, timeout_ms=int(min(self.cap, 20) * 1000))
                    if m2 is None:
                        rec.setdefault("generic_failed", 0)
                        rec["generic_failed"] += 1
                        if attempt == 0:
                            # fall back to non-zero inputs only
                            m2 = solve.get_model(full + [c != 0 for c in reals], r["q"]["logic"], inputs, timeout_ms=int(min(self.cap, 20) * 1000))
                        if m2 is None:
                            break
                    seen_models.append(m2)
                    a2, n2, f2, c2 = run_model(m2)
                    if c2:
                        assignment, nat, failing, confirmed = a2, n2, f2, c2
                        rec["generic_model"] = attempt + 1
                        break
        rec["model"] = {k: (v if isinstance(v, int) else repr(v)) for k, v in assignment.items()}
        rec["native"] = dict(status=nat["status"], failing=failing)
        if not confirmed:
            rec["status"] = "unconfirmed"
            rec["why"] = "model does not reproduce on the native build (status %s, failing %s)" % (nat["status"], failing)
            return
        # known finding?
        kf = self.match_known(ent, o, assignment, failing, nat)
        rp = self.write_replay(ent, o, assignment, failing, nat)
        rec["replay"] = rp
        if kf is not None:
            rec["status"] = "known-finding"
            rec["known"] = kf.get("what")
            self.known_hits.append((kf, rec))
            # look for a different violation of the same obligation outside the known region
            if kf.get("where") and depth < 4:
                try:
                    excl = z3.Not(eval_pred(kf["where"], inputs))
                    o2 = dict(o)
                    o2["pc"] = list(o["pc"]) + [excl]
                    q = self.make_query(eng, o2, with_defs=r["used_defs"])
                    v, who, secs, answers = self.pf.solve_text(q["txt"], q["txt_cvc5"], q["tag"])
                    rec2 = dict(rec)
                    rec2.pop("model", None)
                    rec2["id"] = o["id"]
                    rec2["note"] = "outside known finding: " + kf.get("what", "")
                    rec2["solver"], rec2["secs"], rec2["answers"] = who, round(secs, 3), answers
                    if v == "unsat":
                        rec2["status"] = "discharged"
                    elif v == "sat":
                        r2 = dict(r, o=o2, q=q)
                        self.handle_sat(r2, rec2, depth + 1)
                    else:
                        rec2["status"] = "unknown"
                    self.results.append(rec2)
                except Exception as ex:
                    self.log("[known] could not exclude known region: %r" % ex)
            return
        rec["status"] = "violated"
        self.violations.append(rec)

    def match_known(self, ent, o, assignment, failing, nat):
        for k in self.known:
            if k.get("status", "known") != "known":
                continue
            if k.get("entry") and k["entry"] not in ent.name:
                continue
            if k.get("check") and k["check"] != o["id"] and k["check"] not in failing:
                continue
            if k.get("checks") and o["id"] not in k["checks"]:
                continue
            if k.get("where"):
                try:
                    if not eval_pred(k["where"], dict(assignment, **ent.params)):
                        continue
                except Exception:
                    continue
            return k
        return None

    def write_replay(self, ent, o, assignment, failing, nat):
        d = os.path.join(ROOT, "replays", self.pid)
        os.makedirs(d, exist_ok=True)
        n = len(os.listdir(d))
        import re as _re
        name = "%s-%s-%d.json" % (ent.name, _re.sub(r"[^A-Za-z0-9_.()+-]", "_", o["id"])[:80], n)
        path = os.path.join(d, name)
        with open(path, "w") as f:
            json.dump(dict(property=self.pid, check_module=self.chk.__name__.split(".")[-1], entry=ent.name,
                           params=ent.params, assignment={k: (v.hex() if isinstance(v, float) else v)
                                                          for k, v in assignment.items()},
                           failing_check=o["id"], native_failing=failing, native_status=nat["status"],
                           domain="%s/%s" % (ent.fmode, ent.imode)), f, indent=1)
        return path

    # ------------------------------------------------------------------ top level
    def run(self):
        self.prepare()
        self.translation_validation()
        entries = self.chk.entries(self.tier)
        if self.only:
            entries = [e for e in entries if self.only in e.name]
        expanded = []
        for e in entries:
            if isinstance(e.shard, int):
                import copy
                for i in range(e.shard):
                    e2 = copy.copy(e)
                    e2.shard = (i, e.shard)
                    expanded.append(e2)
            else:
                expanded.append(e)
        entries = expanded
        self.entries = entries
        nproc = max(1, min(16, len(entries)))
        self.solver_jobs = max(2, 16 // nproc)
        self.solver_time = {}
        global _RUNNER
        _RUNNER = self
        import multiprocessing as mp
        t = time.time()
        serial = nproc == 1 or bool(os.environ.get("VERIF_SERIAL"))
        if serial:
            outs = [dict(self.process_entry(i)) for i in range(len(entries))]
        else:
            ctx = mp.get_context("fork")
            with ctx.Pool(nproc) as pool:
                outs = pool.map(_work, range(len(entries)), chunksize=1)
        self.results, self.violations, self.known_hits, self.incomplete = [], [], [], []
        self.functions, self.witness, self.engine_stats = set(), {}, {}
        for o in outs:
            self.results += o["results"]
            self.violations += o["violations"]
            self.known_hits += o["known_hits"]
            self.incomplete += o["incomplete"]
            self.functions |= o["functions"]
            self.witness.update(o["witness"])
            for k, v in o["engine_stats"].items():
                self.engine_stats[k] = self.engine_stats.get(k, 0) + v
            for k, v in o["solver_time"].items():
                self.solver_time[k] = self.solver_time.get(k, 0) + v
        self.log("[entries] %d entries explored and solved in %.1fs wall on %d processes; solver seconds %s" %
                 (len(entries), time.time() - t, nproc, {k: round(v, 1) for k, v in self.solver_time.items()}))
        # concrete test vectors that fail natively are violations too (replayed by construction)
        for nf in self.tv["native_fail"]:
            ent = Entry(nf["entry"], params=nf["params"])
            o = dict(id=nf["check"], kind="check")
            kf = self.match_known(ent, o, nf["assignment"], [nf["check"]], dict(status="ok"))
            rp = self.write_replay(ent, o, nf["assignment"], [nf["check"]], dict(status="ok"))
            rec = dict(entry=nf["entry"], id=nf["check"], kind="check", status="violated", replay=rp,
                       note="translation-validation vector fails on the native build")
            if kf is not None:
                rec["status"] = "known-finding"
                rec["known"] = kf.get("what")
                self.known_hits.append((kf, rec))
            else:
                self.violations.append(rec)
            self.results.append(rec)
        return self.finish()

    def finish(self):
        st = {}
        for r in self.results:
            st[r["status"]] = st.get(r["status"], 0) + 1
        self.log("[verdicts] " + ", ".join("%s=%d" % kv for kv in sorted(st.items())))
        for r in self.results:
            if r["status"] in ("unknown", "unconfirmed"):
                self.log("  %s %s :: %s %s%s" % (r["status"].upper(), r["entry"], r["id"], r.get("why", r.get("answers")),
                                              (" model=%s" % str(r.get("model"))[:400]) if r["status"] == "unconfirmed" else ""))
        vac = [k for k, w in self.witness.items() if not w["reached"] or w["sat"] is False]
        for k in vac:
            self.log("[witness] VACUOUS harness entry %s" % k)
        for k, w in self.witness.items():
            if w["reached"] and w["sat"] is None:
                self.log("[witness] reachability of %s not decided within the cap (path condition neither sat nor unsat)" % k)
        seen = set()
        for kf, rec in self.known_hits:
            key = kf.get("what")
            if key in seen:
                continue
            seen.add(key)
            print("KNOWN-FINDING: property=%s %s" % (self.pid, kf.get("what")), flush=True)
        for v in self.violations:
            print("VIOLATION property=%s replay=%s" % (self.pid, v.get("replay")), flush=True)
            self.log("  violated: %s :: %s model=%s" % (v["entry"], v["id"], v.get("model")))
        self.write_evidence(st)
        return 1 if self.violations else 0

    def write_evidence(self, st):
        chk = self.chk
        nsample = sum(1 for r in self.results if r.get("sample_only"))
        nsimp = int(self.engine_stats.get("simplified_true", 0)) - nsample
        total = sum(1 for r in self.results if r["kind"] != "witness") + nsimp
        st = dict(st)
        st["discharged"] = st.get("discharged", 0) + nsimp
        samples = []
        for r in self.results[:400]:
            if len(samples) >= 12:
                break
            if r["kind"] == "witness":
                continue
            samples.append({k: r[k] for k in ("entry", "id", "kind", "status", "solver", "secs") if k in r})
        for r in self.results:
            if r["status"] in ("violated", "known-finding", "unconfirmed") and len(samples) < 24:
                samples.append({k: r[k] for k in ("entry", "id", "kind", "status", "model", "native", "replay", "why") if k in r})
        by_kind = {}
        for r in self.results:
            by_kind.setdefault(r["kind"], {}).setdefault(r["status"], 0)
            by_kind[r["kind"]][r["status"]] += 1
        distinct = len({(r["entry"], r["id"], r["path"]) for r in self.results if r["kind"] != "witness" and "path" in r}) + nsimp
        ev = dict(
            property_id=self.pid, tier=self.tier, seed=self.seed, level="model_checking",
            wall_s=round(time.time() - self.t0, 2), violations=len(self.violations),
            coverage=dict(
                evaluations=max(total, 1),
                distinct_nontrivial=max(distinct, 0),
                rule="one evaluation = one proof obligation (harness check, lemma, definedness, UB or memory-safety "
                     "condition) on one explored path of one harness entry, decided by an SMT solver for all values of "
                     "the symbolic inputs satisfying that path's condition; distinct = distinct (entry, obligation id, path); "
                     "obligations whose condition folded to a concrete 'true' during execution are not counted; obligations "
                     "whose symbolic condition z3's simplifier rewrites to 'true' are counted as discharged (discharged_by_z3_simplifier) "
                     "without a solver process",
                samples=samples,
                states=int(self.engine_stats.get("paths", 0)) or 1,
                transitions=int(self.engine_stats.get("steps", 0)) or 1,
                traces_validated_against_impl=self.tv["agree"],
                obligations=total,
                discharged=st.get("discharged", 0),
                violated=st.get("violated", 0),
                known_findings=st.get("known-finding", 0),
                unconfirmed=st.get("unconfirmed", 0),
                unknown=st.get("unknown", 0),
                by_kind=by_kind,
                exhaustive=False,
                entries=[dict(entry=e.label(), note=e.note) for e in self.entries],
                bounds=getattr(chk, "BOUNDS", {}).get(self.tier, getattr(chk, "BOUNDS", {})),
                functions_encoded=sorted(_demangle(self.functions))[:400],
                engine=self.engine_stats,
                solver_seconds={k: round(v, 2) for k, v in self.solver_time.items()},
                translation_validation=dict(vectors=self.tv["vectors"], agree=self.tv["agree"],
                                            mismatches=self.tv["mismatch"][:5]),
                reachability_witnesses=self.witness,
                incomplete=self.incomplete[:20],
                concrete_true_checks=int(self.engine_stats.get("concrete_true", 0)),
                discharged_by_z3_simplifier=nsimp + nsample,
                outside_claim=getattr(chk, "OUTSIDE", []),
                explanation=getattr(chk, "CLAIM", ""),
            ),
            assumptions=getattr(chk, "ASSUMPTIONS", []) + COMMON_ASSUMPTIONS,
        )
        os.makedirs(os.path.join(ROOT, "evidence"), exist_ok=True)
        with open(os.path.join(ROOT, "evidence", self.pid + ".json"), "w") as f:
            json.dump(ev, f, indent=1, default=str)


COMMON_ASSUMPTIONS = [
    "clang++-14 -O1 IR (-ffp-contract=off, -DNDEBUG, -DEIGEN_DONT_VECTORIZE) of the sources in /repo's working tree is the "
    "semantics analysed; checked on every run by translation validation against a g++ -O2 build of the same harness",
    "exact ('real') domain: IEEE arithmetic is interpreted over the reals, so verdicts are about the implemented formulae, "
    "not about rounding; every counterexample is replayed on the native IEEE build before it is reported",
    "the interpreter, models of external functions (vf/models.py) and the solvers z3 5.1 / z3 4.8.12 / cvc5 1.0.3 are trusted",
    "paths, sizes and unrollings are bounded as listed under coverage.bounds; nothing is claimed outside them",
]


def _same(a, b):
    if isinstance(a, float) and isinstance(b, float):
        if a != a and b != b:
            return True
        return a == b and math.copysign(1, a) == math.copysign(1, b)
    if isinstance(a, float) or isinstance(b, float):
        return float(a) == float(b)
    return a == b


def _demangle(names):
    import subprocess
    names = [n for n in names if not n.startswith("vf_") and not n.startswith("llvm.")]
    if not names:
        return []
    try:
        p = subprocess.run(["c++filt"], input="\n".join(names), capture_output=True, text=True)
        return [x[:160] for x in p.stdout.split("\n") if x]
    except Exception:
        return names


_RUNNER = None


def _work(i):
    import faulthandler, signal
    faulthandler.register(signal.SIGUSR1, all_threads=True)
    try:
        return _RUNNER.process_entry(i)
    except Exception:
        ent = _RUNNER.entries[i]
        print("[worker] EXCEPTION %s: %s" % (ent.label(), traceback.format_exc()[-2500:]), flush=True)
        return dict(results=[], violations=[], known_hits=[], functions=set(), witness={}, engine_stats={},
                    solver_time={}, log=["[worker] EXCEPTION %s: %s" % (ent.label(), traceback.format_exc()[-2000:])],
                    incomplete=[dict(entry=ent.label(), why="worker exception: " + traceback.format_exc()[-800:])])


def main(argv):
    import argparse
    ap = argparse.ArgumentParser()
    ap.add_argument("check")
    ap.add_argument("--tier", default=os.environ.get("VERIF_TIER", "quick"))
    ap.add_argument("--replay")
    ap.add_argument("--only")
    args = ap.parse_args(argv)
    sys.path.insert(0, ROOT)
    sys.setrecursionlimit(100000)
    seed = int(os.environ.get("VERIF_SEED", "0"))
    if args.replay:
        return replay_file(args.check, args.replay)
    r = Runner(args.check, args.tier, seed=seed, only=args.only)
    return r.run()


def replay_file(modname, path):
    chk = importlib.import_module("checks." + modname)
    with open(path) as f:
        rp = json.load(f)
    if hasattr(chk, "custom_replay_file") and rp["failing_check"].split(":")[0] in getattr(chk, "CUSTOM_REPLAY_KINDS", ()):
        bad, info = chk.custom_replay_file(rp)
        print(info)
        if bad:
            print("VIOLATION property=%s replay=%s" % (rp["property"], path))
            return 1
        print("replay passes")
        return 0
    native = build.build_native(chk.HARNESS, chk.SOURCES, getattr(chk, "DEFINES", ()))
    assignment = {k: (float.fromhex(v) if isinstance(v, str) else v) for k, v in rp["assignment"].items()}
    nat = build.run_native(native, rp["entry"], assignment, rp["params"])
    failing = [c for c, ok in nat["checks"] if not ok]
    print("native status:", nat["status"], "failing checks:", failing)
    bad = rp["failing_check"] in failing or nat["status"] == "timeout" or nat["status"].startswith("crash") or \
        (not rp["failing_check"].split(":")[0] in ("",) and rp["failing_check"].split(":")[0] in ("def", "ub", "abort", "mem") and failing)
    if bad:
        print("VIOLATION property=%s replay=%s" % (rp["property"], path))
        return 1
    print("replay passes")
    return 0
