"""Transcendental and rounding functions on symbolic values (DESIGN.md 2.3)."""
import z3
from .interp import SV, Inconclusive, RV, realval


def _atom_once(st, key, constraints):
    seen = st.user.setdefault("atoms", set())
    if key not in seen:
        seen.add(key)
        for c in constraints:
            st.assume(c)


def fabs(eng, x):
    if eng.fmode == "fp":
        return SV(z3.fpAbs(x.e))
    d = {k: z3.If(x.e >= 0, v, -v) for k, v in x.d.items()} if x.d else None
    return SV(z3.If(x.e >= 0, x.e, -x.e), d=d)


def sqrt(eng, st, x, ty):
    if eng.fmode == "fp":
        return SV(z3.fpSqrt(z3.RNE(), x.e))
    key = ("sqrt", eng.nf_key(x.e))
    w = eng.atom_cache.get(key)
    if w is None:
        w = eng.fresh("sqrt", z3.RealSort())
        eng.atom_cache[key] = w
        eng._keep.append(x.e)
    seen = st.user.setdefault("atoms", set())
    if key not in seen:
        seen.add(key)
        eng.add_obligation(st, "def:sqrt-of-nonnegative", "def", x.e >= 0)
        st.assume(x.e >= 0)
        st.assume(eng.mark_def(z3.And(w >= 0, w * w == x.e)))
    d = None
    if x.d:
        eng.add_obligation(st, "def:sqrt-derivative-at-nonzero", "def", w != 0)
        st.assume(w != 0)
        d = {k: v / (2 * w) for k, v in x.d.items()}
    r = SV(w, d=d)
    if eng.fmode == "rounded":
        r = eng.rnd(r, ty)
    return r


def apply1(eng, st, name, x, ty):
    if name == "fabs":
        return fabs(eng, x)
    if name == "sqrt":
        return sqrt(eng, st, x, ty)
    if eng.fmode == "fp":
        if name in ("floor", "ceil", "trunc", "rint", "nearbyint", "round"):
            rm = {"floor": z3.RTN(), "ceil": z3.RTP(), "trunc": z3.RTZ(), "rint": z3.RNE(),
                  "nearbyint": z3.RNE(), "round": z3.RNA()}[name]
            return SV(z3.fpRoundToIntegral(rm, x.e))
        raise Inconclusive("%s in fp mode" % name)
    e = x.e
    if name == "floor":
        return SV(z3.ToReal(z3.ToInt(e)))
    if name == "ceil":
        return SV(-z3.ToReal(z3.ToInt(-e)))
    if name == "trunc":
        return SV(z3.If(e >= 0, z3.ToReal(z3.ToInt(e)), -z3.ToReal(z3.ToInt(-e))))
    if name in ("round",):
        return SV(z3.If(e >= 0, z3.ToReal(z3.ToInt(e + RV("1/2"))), -z3.ToReal(z3.ToInt(-e + RV("1/2")))))
    from . import angles
    return angles.apply1(eng, st, name, x, ty)


def apply2(eng, st, name, x, y, ty):
    if name in ("fmin", "fmax"):
        ex, ey = eng.fterm(x, ty), eng.fterm(y, ty)
        if eng.fmode == "fp":
            return SV(z3.fpMin(ex, ey) if name == "fmin" else z3.fpMax(ex, ey))
        c = ex <= ey if name == "fmin" else ex >= ey
        return eng.ite(c, x, y, ty)
    if name == "copysign":
        if eng.fmode == "fp":
            raise Inconclusive("copysign in fp mode")
        ex, ey = eng.fterm(x, ty), eng.fterm(y, ty)
        ax = z3.If(ex >= 0, ex, -ex)
        return SV(z3.If(ey >= 0, ax, -ax))
    if eng.fmode == "fp":
        raise Inconclusive("%s in fp mode" % name)
    from . import angles
    return angles.apply2(eng, st, name, x, y, ty)


def fmod(eng, st, a, b, ty):
    from . import angles
    return angles.apply2(eng, st, "fmod", a, b, ty)


def PI(eng):
    from . import angles
    return angles.PI(eng)


def declare_angle(eng, st, v, name, lo, hi):
    from . import angles
    return angles.declare_angle(eng, st, v, name, lo, hi)
