"""Rebuilds IR (clang++-14 -O1, per file, llvm-link) and the native replay binary (g++)
from /repo's current working tree.  Cached by content hash under /verif/build."""
import os
import hashlib
import subprocess
import pickle
from concurrent.futures import ThreadPoolExecutor

REPO = os.environ.get("VERIF_REPO", "/repo")
ROOT = os.path.dirname(os.path.dirname(os.path.abspath(__file__)))
BUILD = os.path.join(ROOT, "build")
HARNESS = os.path.join(ROOT, "harness")

COMMON = ["-std=c++17", "-DNDEBUG", "-DEIGEN_DONT_VECTORIZE", "-ffp-contract=off",
          "-I" + os.path.join(REPO, "include"), "-I/usr/include/eigen3", "-I" + HARNESS, "-w"]
IRFLAGS = ["-O1", "-fno-vectorize", "-fno-slp-vectorize", "-fno-unroll-loops", "-S", "-emit-llvm"]
NATFLAGS = ["-O2"]

_tree_hash = None


def tree_hash():
    """hash of every header of the repo plus vf.h (sources are hashed individually)"""
    global _tree_hash
    if _tree_hash is None:
        h = hashlib.sha1()
        for base in (os.path.join(REPO, "include"), ):
            for d, _, files in sorted(os.walk(base)):
                for f in sorted(files):
                    p = os.path.join(d, f)
                    h.update(p.encode())
                    with open(p, "rb") as fh:
                        h.update(fh.read())
        with open(os.path.join(HARNESS, "vf.h"), "rb") as fh:
            h.update(fh.read())
        _tree_hash = h.hexdigest()
    return _tree_hash


def _key(path, flags):
    h = hashlib.sha1()
    h.update(tree_hash().encode())
    h.update(" ".join(flags).encode())
    with open(path, "rb") as fh:
        h.update(fh.read())
    return h.hexdigest()[:20]


def _run(cmd):
    p = subprocess.run(cmd, capture_output=True, text=True)
    if p.returncode != 0:
        raise RuntimeError("build failed: %s\n%s" % (" ".join(cmd), p.stderr[-4000:]))


def _compile_ir(path, extra):
    flags = COMMON + IRFLAGS + extra
    out = os.path.join(BUILD, "ir", _key(path, flags) + "-" + os.path.basename(path) + ".ll")
    if not os.path.exists(out):
        os.makedirs(os.path.dirname(out), exist_ok=True)
        _run(["clang++-14"] + flags + [path, "-o", out + ".tmp"])
        os.replace(out + ".tmp", out)
    return out


def _compile_obj(path, extra):
    flags = COMMON + NATFLAGS + extra
    out = os.path.join(BUILD, "obj", _key(path, flags) + "-" + os.path.basename(path) + ".o")
    if not os.path.exists(out):
        os.makedirs(os.path.dirname(out), exist_ok=True)
        _run(["g++"] + flags + ["-c", path, "-o", out + ".tmp"])
        os.replace(out + ".tmp", out)
    return out


def sources(harness_cpp, repo_srcs):
    return [os.path.join(HARNESS, harness_cpp)] + [os.path.join(REPO, s) for s in repo_srcs]


def build_ir(harness_cpp, repo_srcs, noinline=False, defines=()):
    """returns path of the linked .ll"""
    srcs = sources(harness_cpp, repo_srcs)
    extra_h = ["-fno-access-control"] + ["-D" + d for d in defines]
    extra_r = ["-D" + d for d in defines]
    if noinline:
        extra_h.append("-fno-inline")
        extra_r.append("-fno-inline")
    with ThreadPoolExecutor(max_workers=16) as ex:
        futs = [ex.submit(_compile_ir, s, extra_h if i == 0 else extra_r) for i, s in enumerate(srcs)]
        lls = [f.result() for f in futs]
    h = hashlib.sha1(" ".join(lls).encode()).hexdigest()[:20]
    out = os.path.join(BUILD, "ir", "linked-" + h + ".ll")
    if not os.path.exists(out):
        if len(lls) == 1:
            _run(["cp", lls[0], out])
        else:
            _run(["llvm-link-14", "-S"] + lls + ["-o", out + ".tmp"])
            os.replace(out + ".tmp", out)
    return out


def load_module(ll_path):
    """parsed module, cached as a pickle next to the .ll"""
    from . import ir
    pk = ll_path + ".pickle"
    if os.path.exists(pk):
        try:
            with open(pk, "rb") as f:
                return pickle.load(f)
        except Exception:
            pass
    mod = ir.Module.parse_file(ll_path)
    try:
        import sys
        sys.setrecursionlimit(100000)
        with open(pk + ".tmp", "wb") as f:
            pickle.dump(mod, f, protocol=pickle.HIGHEST_PROTOCOL)
        os.replace(pk + ".tmp", pk)
    except Exception:
        pass
    return mod


def build_native(harness_cpp, repo_srcs, defines=(), sanitize=None):
    srcs = sources(harness_cpp, repo_srcs) + [os.path.join(HARNESS, "vf_native.cpp")]
    extra = ["-D" + d for d in defines]
    if sanitize:
        extra += ["-fsanitize=" + sanitize, "-g"]
    with ThreadPoolExecutor(max_workers=16) as ex:
        futs = [ex.submit(_compile_obj, s, (["-fno-access-control"] if i == 0 else []) + extra)
                for i, s in enumerate(srcs)]
        objs = [f.result() for f in futs]
    h = hashlib.sha1(" ".join(objs).encode()).hexdigest()[:20]
    out = os.path.join(BUILD, "bin", "native-" + h)
    if not os.path.exists(out):
        os.makedirs(os.path.dirname(out), exist_ok=True)
        cmd = ["g++"] + objs + ["-o", out + ".tmp", "-rdynamic", "-ldl", "-lpthread"]
        if sanitize:
            cmd.append("-fsanitize=" + sanitize)
        _run(cmd)
        os.replace(out + ".tmp", out)
    return out


def run_native(binary, entry, assignment, params, timeout=10):
    """returns dict(status, checks=[(id, ok)], obs=[(name, value)], reach=[...])"""
    import tempfile
    import struct
    lines = []
    for k, v in list(params.items()) + list(assignment.items()):
        if isinstance(v, float):
            lines.append("%s %s" % (k, v.hex()))
        else:
            lines.append("%s %d" % (k, int(v)))
    fd, path = tempfile.mkstemp(prefix="vfassign", dir=BUILD)
    with os.fdopen(fd, "w") as f:
        f.write("\n".join(lines) + "\n")
    try:
        try:
            p = subprocess.run([binary, entry, path], capture_output=True, text=True, timeout=timeout)
            out, rc, status = p.stdout, p.returncode, "ok"
        except subprocess.TimeoutExpired as te:
            out = te.stdout.decode() if isinstance(te.stdout, bytes) else (te.stdout or "")
            rc, status = None, "timeout"
    finally:
        os.remove(path)
    res = dict(status=status, rc=rc, checks=[], obs=[], reach=[], raw=out[-2000:])
    for line in out.split("\n"):
        t = line.split()
        if not t:
            continue
        if t[0] == "CHECK":
            res["checks"].append((" ".join(t[1:-1]), t[-1] == "1"))     # ids may contain blanks
        elif t[0] == "OBS":
            res["obs"].append((t[1], float.fromhex(t[2]) if ("x" in t[2] or "nan" in t[2] or "inf" in t[2]) else int(t[2])))
        elif t[0] == "REACH":
            res["reach"].append(t[1])
        elif t[0] == "ASSUME-FAIL":
            res["status"] = "assume-fail"
        elif t[0] in ("MISSING", "NOENTRY"):
            res["status"] = line
    if status == "ok" and rc not in (0, 3) and res["status"] == "ok":
        res["status"] = "crash rc=%s" % rc
    return res


def build_tsan(main_cpp, repo_srcs):
    """clang++ -fsanitize=thread build of a standalone stress program (C19 replays)"""
    srcs = [os.path.join(HARNESS, main_cpp)] + [os.path.join(REPO, s) for s in repo_srcs]
    h = hashlib.sha1()
    h.update(tree_hash().encode())
    for s in srcs:
        with open(s, "rb") as f:
            h.update(f.read())
    out = os.path.join(BUILD, "bin", "tsan-" + h.hexdigest()[:20])
    if not os.path.exists(out):
        os.makedirs(os.path.dirname(out), exist_ok=True)
        _run(["clang++-14", "-std=c++17", "-O1", "-g", "-fsanitize=thread", "-I" + os.path.join(REPO, "include"),
              "-I/usr/include/eigen3", "-w"] + srcs + ["-o", out + ".tmp", "-lpthread"])
        os.replace(out + ".tmp", out)
    return out


def run_tsan(binary, scenario, timeout=180):
    env = dict(os.environ, TSAN_OPTIONS="exitcode=66 halt_on_error=0")
    try:
        p = subprocess.run([binary, scenario], capture_output=True, text=True, timeout=timeout, env=env)
    except subprocess.TimeoutExpired:
        return dict(races=0, status="timeout", functions=[])
    txt = p.stderr + p.stdout
    races = txt.count("WARNING: ThreadSanitizer: data race")
    fns = []
    for line in txt.split("\n"):
        line = line.strip()
        if line.startswith("#") and " in " in line:
            f = line.split(" in ", 1)[1].split(" /")[0].split(" (")[0]
            if "romea" in f and f not in fns:
                fns.append(f[:120])
    return dict(races=races, status="rc=%s" % p.returncode, functions=fns[:12], raw=txt[:3000])
