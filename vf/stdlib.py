"""Models of the libstdc++ externals the diagnostics code reaches: std::string (SSO layout), red-black tree
helpers of std::map, std::list hooks, and the value formatter (opaque tokens).  Strings are concrete bytes."""
import z3
from .interp import SV, Inconclusive, UNDEF, to_signed
from . import ir
from .models import EXACT, PREFIX, model, prefix

S = "_ZNSt7__cxx1112basic_stringIcSt11char_traitsIcESaIcEE"
SK = "_ZNKSt7__cxx1112basic_stringIcSt11char_traitsIcESaIcEE"
PTR = ir.PtrT(ir.I8)


def s_ptr(eng, st, a):
    return eng.load(st, a, PTR)


def s_len(eng, st, a):
    n = eng.load(st, a + 8, ir.I64)
    if not isinstance(n, int):
        raise Inconclusive("std::string with symbolic length")
    return n


def s_get(eng, st, a):
    p, n = s_ptr(eng, st, a), s_len(eng, st, a)
    out = bytearray()
    for i in range(n):
        b = eng.load(st, p + i, ir.I8)
        if not isinstance(b, int):
            raise Inconclusive("std::string with symbolic contents")
        out.append(b)
    return bytes(out)


def s_set(eng, st, a, data):
    n = len(data)
    if n <= 15:
        p = a + 16
    else:
        p = eng.alloc(st, n + 1, "heap")
        eng.store(st, a + 16, ir.I64, n)
    eng.store(st, a, PTR, p)
    eng.store(st, a + 8, ir.I64, n)
    for i, b in enumerate(data):
        eng.store(st, p + i, ir.I8, b)
    eng.store(st, p + n, ir.I8, 0)


def _cstr(eng, st, p):
    return eng.read_cstr(st, p).encode("latin1")


def _cmp(x, y):
    return (x > y) - (x < y)


def install():
    E = EXACT
    E[S + "C2Ev"] = E[S + "C1Ev"] = lambda eng, st, fr, ins, a: s_set(eng, st, a[0], b"")
    def copy_ctor(eng, st, fr, ins, a):
        s_set(eng, st, a[0], s_get(eng, st, a[1]))
    E[S + "C2ERKS4_"] = E[S + "C1ERKS4_"] = copy_ctor
    def move_ctor(eng, st, fr, ins, a):
        s_set(eng, st, a[0], s_get(eng, st, a[1]))
        s_set(eng, st, a[1], b"")
    E[S + "C2EOS4_"] = E[S + "C1EOS4_"] = move_ctor
    def cstr_ctor(eng, st, fr, ins, a):
        s_set(eng, st, a[0], _cstr(eng, st, a[1]))
    E[S + "C2EPKcRKS3_"] = E[S + "C1EPKcRKS3_"] = cstr_ctor
    E[S + "D2Ev"] = E[S + "D1Ev"] = lambda eng, st, fr, ins, a: None

    def assign_c(eng, st, fr, ins, a):
        s_set(eng, st, a[0], _cstr(eng, st, a[1]))
        return a[0]
    E[S + "aSEPKc"] = E[S + "6assignEPKc"] = assign_c
    def assign_s(eng, st, fr, ins, a):
        s_set(eng, st, a[0], s_get(eng, st, a[1]))
        return a[0]
    E[S + "aSERKS4_"] = E[S + "9_M_assignERKS4_"] = E[S + "6assignERKS4_"] = assign_s
    def assign_m(eng, st, fr, ins, a):
        s_set(eng, st, a[0], s_get(eng, st, a[1]))
        s_set(eng, st, a[1], b"")
        return a[0]
    E[S + "aSEOS4_"] = assign_m
    def append_c(eng, st, fr, ins, a):
        s_set(eng, st, a[0], s_get(eng, st, a[0]) + _cstr(eng, st, a[1]))
        return a[0]
    E[S + "6appendEPKc"] = append_c
    def append_s(eng, st, fr, ins, a):
        s_set(eng, st, a[0], s_get(eng, st, a[0]) + s_get(eng, st, a[1]))
        return a[0]
    E[S + "6appendERKS4_"] = append_s
    def append_n(eng, st, fr, ins, a):
        n = eng.concrete_int(st, a[2], "append length")
        data = bytes(eng.load(st, a[1] + i, ir.I8) for i in range(n))
        s_set(eng, st, a[0], s_get(eng, st, a[0]) + data)
        return a[0]
    E[S + "9_M_appendEPKcm"] = E[S + "6appendEPKcm"] = append_n
    def replace(eng, st, fr, ins, a):
        this, pos, n1, p, n2 = a
        cur = s_get(eng, st, this)
        data = bytes(eng.load(st, p + i, ir.I8) for i in range(n2))
        s_set(eng, st, this, cur[:pos] + data + cur[pos + n1:])
        return this
    E[S + "10_M_replaceEmmPKcm"] = replace
    def reserve(eng, st, fr, ins, a):
        return None
    E[S + "7reserveEm"] = reserve
    E[SK + "4sizeEv"] = E[SK + "6lengthEv"] = lambda eng, st, fr, ins, a: s_len(eng, st, a[0])
    E[SK + "5emptyEv"] = lambda eng, st, fr, ins, a: int(s_len(eng, st, a[0]) == 0)
    E[SK + "4dataEv"] = E[SK + "5c_strEv"] = E[SK + "7_M_dataEv"] = lambda eng, st, fr, ins, a: s_ptr(eng, st, a[0])
    E[SK + "7compareERKS4_"] = lambda eng, st, fr, ins, a: _cmp(s_get(eng, st, a[0]), s_get(eng, st, a[1])) & 0xFFFFFFFF
    E[SK + "7compareEPKc"] = lambda eng, st, fr, ins, a: _cmp(s_get(eng, st, a[0]), _cstr(eng, st, a[1])) & 0xFFFFFFFF
    # low level pieces used by the header-instantiated _M_construct
    E[S + "13_M_local_dataEv"] = E[SK + "13_M_local_dataEv"] = lambda eng, st, fr, ins, a: a[0] + 16
    def alloc_hider(eng, st, fr, ins, a):
        eng.store(st, a[0], PTR, a[1])
    E[S + "12_Alloc_hiderC2EPcRKS3_"] = E[S + "12_Alloc_hiderC1EPcRKS3_"] = E[S + "12_Alloc_hiderC2EPcOS3_"] = alloc_hider
    def set_data(eng, st, fr, ins, a):
        eng.store(st, a[0], PTR, a[1])
    E[S + "7_M_dataEPc"] = set_data
    def set_cap(eng, st, fr, ins, a):
        eng.store(st, a[0] + 16, ir.I64, a[1])
    E[S + "11_M_capacityEm"] = set_cap
    def set_len(eng, st, fr, ins, a):
        n = eng.concrete_int(st, a[1], "string length")
        eng.store(st, a[0] + 8, ir.I64, n)
        eng.store(st, s_ptr(eng, st, a[0]) + n, ir.I8, 0)
    E[S + "13_M_set_lengthEm"] = set_len
    def copy_chars(eng, st, fr, ins, a):
        eng.memcpy(st, a[0], a[1], a[2] - a[1])
    E[S + "13_S_copy_charsEPcPKcS7_"] = E[S + "13_S_copy_charsEPcS5_S5_"] = copy_chars
    def s_copy(eng, st, fr, ins, a):
        eng.memcpy(st, a[0], a[1], eng.concrete_int(st, a[2], "copy length"))
    E[S + "7_S_copyEPcPKcm"] = s_copy
    E[S + "10_M_disposeEv"] = lambda eng, st, fr, ins, a: None
    def create(eng, st, fr, ins, a):
        cap = eng.load(st, a[1], ir.I64)
        cap = eng.concrete_int(st, cap, "string capacity")
        return eng.alloc(st, cap + 1, "heap")
    E[S + "9_M_createERmm"] = create
    E["_ZNSaIcEC2Ev"] = E["_ZNSaIcEC1Ev"] = E["_ZNSaIcED2Ev"] = E["_ZNSaIcED1Ev"] = lambda eng, st, fr, ins, a: None
    E[SK + "13get_allocatorEv"] = lambda eng, st, fr, ins, a: None
    E[S + "16_M_get_allocatorEv"] = E[SK + "16_M_get_allocatorEv"] = lambda eng, st, fr, ins, a: a[0]
    def ctor_alloc(eng, st, fr, ins, a):
        s_set(eng, st, a[0], b"")
    E[S + "C2ERKS3_"] = E[S + "C1ERKS3_"] = ctor_alloc
    E[S + "7reserveEm"] = lambda eng, st, fr, ins, a: None
    E[SK + "8capacityEv"] = lambda eng, st, fr, ins, a: max(15, s_len(eng, st, a[0]))
    E["_ZNSaIcEC2ERKS_"] = E["_ZNSaIcEC1ERKS_"] = lambda eng, st, fr, ins, a: None

    # ---------------------------------------------------------------- value formatter: opaque tokens
    def to_string_info(eng, st, fr, ins, a):
        sret, pv = a[0], a[1]
        ty = ir.DOUBLE
        v = eng.load(st, pv, ty)
        toks = eng.tokens
        if isinstance(v, SV):
            key = ("s", v.e.get_id())
            eng._keep.append(v.e)
        else:
            key = ("c", repr(v))
        k = toks.get(key)
        if k is None:
            k = toks[key] = len(toks) + 1
            eng.token_values[k] = v
        s_set(eng, st, sret, b"\x01value#%d" % k)
        return None
    for t in ("d", "f"):
        E["_ZN5romea4core17toStringInfoValueI%sEENSt7__cxx1112basic_stringIcSt11char_traitsIcESaIcEEERKT_" % t] = to_string_info

    # ---------------------------------------------------------------- std::list hooks
    def hook(eng, st, fr, ins, a):
        this, pos = a
        prev = eng.load(st, pos + 8, PTR)
        eng.store(st, this, PTR, pos)
        eng.store(st, this + 8, PTR, prev)
        eng.store(st, prev, PTR, this)
        eng.store(st, pos + 8, PTR, this)
    E["_ZNSt8__detail15_List_node_base7_M_hookEPS0_"] = hook
    def unhook(eng, st, fr, ins, a):
        this = a[0]
        nxt = eng.load(st, this, PTR)
        prev = eng.load(st, this + 8, PTR)
        eng.store(st, prev, PTR, nxt)
        eng.store(st, nxt + 8, PTR, prev)
    E["_ZNSt8__detail15_List_node_base9_M_unhookEv"] = unhook
    def transfer(eng, st, fr, ins, a):
        this, first, last = a
        if this == last:
            return None
        L = lambda p, off=0: eng.load(st, p + off, PTR)
        W = lambda p, off, v: eng.store(st, p + off, PTR, v)
        # remove [first, last) from its old position
        W(L(last, 8), 0, this)
        W(L(first, 8), 0, last)
        W(L(this, 8), 0, first)
        tmp = L(this, 8)
        W(this, 8, L(last, 8))
        W(last, 8, L(first, 8))
        W(first, 8, tmp)
    E["_ZNSt8__detail15_List_node_base11_M_transferEPS0_S1_"] = transfer

    # ---------------------------------------------------------------- red-black tree (port of libstdc++ tree.cc)
    COLOR, PARENT, LEFT, RIGHT = 0, 8, 16, 24
    RED, BLACK = 0, 1

    def mk(eng, st):
        L = lambda p, off: eng.load(st, p + off, PTR if off else ir.I32)
        W = lambda p, off, v: eng.store(st, p + off, PTR if off else ir.I32, v)
        return L, W

    def increment(eng, st, fr, ins, a):
        L, W = mk(eng, st)
        x = a[0]
        if L(x, RIGHT) != 0:
            x = L(x, RIGHT)
            while L(x, LEFT) != 0:
                x = L(x, LEFT)
        else:
            y = L(x, PARENT)
            while x == L(y, RIGHT):
                x = y
                y = L(y, PARENT)
            if L(x, RIGHT) != y:
                x = y
        return x
    E["_ZSt18_Rb_tree_incrementPSt18_Rb_tree_node_base"] = E["_ZSt18_Rb_tree_incrementPKSt18_Rb_tree_node_base"] = increment

    def decrement(eng, st, fr, ins, a):
        L, W = mk(eng, st)
        x = a[0]
        if L(x, COLOR) == RED and L(L(x, PARENT), PARENT) == x:
            x = L(x, RIGHT)
        elif L(x, LEFT) != 0:
            y = L(x, LEFT)
            while L(y, RIGHT) != 0:
                y = L(y, RIGHT)
            x = y
        else:
            y = L(x, PARENT)
            while x == L(y, LEFT):
                x = y
                y = L(y, PARENT)
            x = y
        return x
    E["_ZSt18_Rb_tree_decrementPSt18_Rb_tree_node_base"] = E["_ZSt18_Rb_tree_decrementPKSt18_Rb_tree_node_base"] = decrement

    def insert_and_rebalance(eng, st, fr, ins, a):
        L, W = mk(eng, st)
        insert_left, x, p, header = a[0] & 1, a[1], a[2], a[3]
        root = lambda: L(header, PARENT)
        W(x, PARENT, p)
        W(x, LEFT, 0)
        W(x, RIGHT, 0)
        W(x, COLOR, RED)
        if insert_left:
            W(p, LEFT, x)
            if p == header:
                W(header, PARENT, x)
                W(header, RIGHT, x)
            elif p == L(header, LEFT):
                W(header, LEFT, x)
        else:
            W(p, RIGHT, x)
            if p == L(header, RIGHT):
                W(header, RIGHT, x)

        def rotate_left(x):
            y = L(x, RIGHT)
            W(x, RIGHT, L(y, LEFT))
            if L(y, LEFT) != 0:
                W(L(y, LEFT), PARENT, x)
            W(y, PARENT, L(x, PARENT))
            if x == root():
                W(header, PARENT, y)
            elif x == L(L(x, PARENT), LEFT):
                W(L(x, PARENT), LEFT, y)
            else:
                W(L(x, PARENT), RIGHT, y)
            W(y, LEFT, x)
            W(x, PARENT, y)

        def rotate_right(x):
            y = L(x, LEFT)
            W(x, LEFT, L(y, RIGHT))
            if L(y, RIGHT) != 0:
                W(L(y, RIGHT), PARENT, x)
            W(y, PARENT, L(x, PARENT))
            if x == root():
                W(header, PARENT, y)
            elif x == L(L(x, PARENT), RIGHT):
                W(L(x, PARENT), RIGHT, y)
            else:
                W(L(x, PARENT), LEFT, y)
            W(y, RIGHT, x)
            W(x, PARENT, y)

        while x != root() and L(L(x, PARENT), COLOR) == RED:
            xpp = L(L(x, PARENT), PARENT)
            if L(x, PARENT) == L(xpp, LEFT):
                y = L(xpp, RIGHT)
                if y != 0 and L(y, COLOR) == RED:
                    W(L(x, PARENT), COLOR, BLACK)
                    W(y, COLOR, BLACK)
                    W(xpp, COLOR, RED)
                    x = xpp
                else:
                    if x == L(L(x, PARENT), RIGHT):
                        x = L(x, PARENT)
                        rotate_left(x)
                    W(L(x, PARENT), COLOR, BLACK)
                    W(xpp, COLOR, RED)
                    rotate_right(xpp)
            else:
                y = L(xpp, LEFT)
                if y != 0 and L(y, COLOR) == RED:
                    W(L(x, PARENT), COLOR, BLACK)
                    W(y, COLOR, BLACK)
                    W(xpp, COLOR, RED)
                    x = xpp
                else:
                    if x == L(L(x, PARENT), LEFT):
                        x = L(x, PARENT)
                        rotate_right(x)
                    W(L(x, PARENT), COLOR, BLACK)
                    W(xpp, COLOR, RED)
                    rotate_left(xpp)
        W(root(), COLOR, BLACK)
        return None
    E["_ZSt29_Rb_tree_insert_and_rebalancebPSt18_Rb_tree_node_baseS0_RS_"] = insert_and_rebalance


install()
