"""Contracts for third-party iterative / pivoting kernels (DESIGN.md 2.4): Eigen LDLT::solve, JacobiSVD,
SelfAdjointEigenSolver.  Installed per harness entry through Entry(setup=...)."""
import z3
from .interp import SV, Inconclusive, RV, NOTHING
from . import ir


def install_overrides(eng):
    if getattr(eng, "_ovr_installed", False):
        return
    eng._ovr_installed = True
    eng.overrides = []
    orig_find = eng.find_model

    def call_override(name):
        for pred, f in eng.overrides:
            if pred(name):
                return f
        return None
    eng.call_override = call_override


def _mat(eng, st, addr, ty=ir.DOUBLE):
    """(data ptr, rows, cols) of an Eigen dynamic matrix object"""
    data = eng.load(st, addr, ir.PtrT(ty))
    rows = eng.load(st, addr + 8, ir.I64)
    cols = eng.load(st, addr + 16, ir.I64)
    if not all(isinstance(x, int) for x in (data, rows, cols)):
        raise Inconclusive("matrix with symbolic shape")
    return data, rows, cols


def _read(eng, st, addr, ty=ir.DOUBLE):
    data, rows, cols = _mat(eng, st, addr, ty)
    return [[eng.load(st, data + (c * rows + r) * ty.size, ty) for c in range(cols)] for r in range(rows)]


def _term(eng, v):
    return v.e if isinstance(v, SV) else eng.fterm(v, ir.DOUBLE)


def _alloc_matrix(eng, st, addr, rows, cols, vals, ty=ir.DOUBLE, vector=False):
    p = eng.alloc(st, max(rows * cols, 1) * ty.size, "heap")
    for c in range(cols):
        for r in range(rows):
            eng.store(st, p + (c * rows + r) * ty.size, ty, vals[r][c])
    eng.store(st, addr, ir.PtrT(ty), p)
    eng.store(st, addr + 8, ir.I64, rows)
    if not vector:
        eng.store(st, addr + 16, ir.I64, cols)


# ----------------------------------------------------------------------------- LDLT

def ldlt_contract(eng, scalar="d", pre=None):
    """LDLT(A).solve(B) returns X with A X = B  (A nonsingular is the caller's stated assumption)"""
    install_overrides(eng)
    ty = ir.DOUBLE if scalar == "d" else ir.FLOAT
    tag = "4LDLTINS_6MatrixI%sLin1ELin1E" % scalar

    def compute(eng, st, fr, ins, a):
        this, mat = a[0], a[1]
        if pre is not None:
            pre(eng, st, a, "LDLT::compute")
        st.user.setdefault("ldlt", {})[this] = _read(eng, st, mat, ty)
        eng.contracts_hit["LDLT::compute"] = eng.contracts_hit.get("LDLT::compute", 0) + 1
        return this

    def solve_impl(eng, st, fr, ins, a):
        this, rhs, dst = a
        A = st.user.get("ldlt", {}).get(this)
        if A is None:
            raise Inconclusive("LDLT contract: solve before compute")
        n = len(A)
        name = ins.a[0][1] if ins.a[0][0] == "g" else ""
        if "scalar_identity_op" in name:
            B = [[1.0 if i == j else 0.0 for j in range(n)] for i in range(n)]
            cols = n
        else:
            B = _read(eng, st, rhs, ty)
            cols = len(B[0])
        X = [[SV(eng.fresh("ldltX", z3.RealSort())) for _ in range(cols)] for _ in range(n)]
        for i in range(n):
            for j in range(cols):
                acc = RV(0)
                for k in range(n):
                    acc = acc + _term(eng, A[i][k]) * X[k][j].e
                st.assume(acc == _term(eng, B[i][j]))
        data, rows, cc = _mat(eng, st, dst, ty)
        if rows != n or cc != cols:
            raise Inconclusive("LDLT contract: destination not sized")
        for c in range(cols):
            for r in range(n):
                eng.store(st, data + (c * n + r) * ty.size, ty, X[r][c])
        eng.contracts_hit["LDLT::solve"] = eng.contracts_hit.get("LDLT::solve", 0) + 1
        return None
    eng.overrides.append((lambda nm: tag in nm and "7computeI" in nm, compute))
    eng.overrides.append((lambda nm: tag in nm and "11_solve_implI" in nm, solve_impl))


# ----------------------------------------------------------------------------- JacobiSVD (dynamic matrices)

def jacobi_svd_contract(eng, scalar="d", symmetric_psd=False, pre=None, post=None):
    """JacobiSVD<MatrixX>(M, opts): fresh U, V, s with U^T U = V^T V = I, s1 >= ... >= sn >= 0, U diag(s) V^T = M"""
    install_overrides(eng)
    ty = ir.DOUBLE if scalar == "d" else ir.FLOAT
    tag = "9JacobiSVDINS_6MatrixI%sLin1ELin1E" % scalar

    def ctor(eng, st, fr, ins, a):
        this, mat = a[0], a[1]
        if pre is not None:
            pre(eng, st, a, "JacobiSVD")
        M = _read(eng, st, mat, ty)
        rows, cols = len(M), len(M[0])
        k = min(rows, cols)
        # zero the object so that the destructor frees nothing it should not
        t = None
        for nm, nt in eng.mod.named_types.items():
            if nm.startswith("class.Eigen::JacobiSVD") and "base" not in nm:
                t = nt
                break
        size = t.size if t is not None else 256
        eng.memset(st, this, 0, size)
        def ortho2(name):
            # every 2x2 orthogonal matrix is [[c, -e s], [s, e c]] with c^2 + s^2 = 1, e = +-1: two unknowns and a sign
            # instead of four unknowns and six equations
            c, s_, e = (eng.fresh(name + x, z3.RealSort()) for x in ("c", "s", "e"))
            st.assume(eng.mark_def(z3.And(c * c + s_ * s_ == 1, z3.Or(e == 1, e == -1))))
            return [[SV(c), SV(-e * s_)], [SV(s_), SV(e * c)]]
        pU = rows == 2 and k == 2 and getattr(eng, "svd_param2", True)
        pV = cols == 2 and k == 2 and getattr(eng, "svd_param2", True)
        U = ortho2("svdU") if pU else [[SV(eng.fresh("svdU", z3.RealSort())) for _ in range(k)] for _ in range(rows)]
        V = ortho2("svdV") if pV else [[SV(eng.fresh("svdV", z3.RealSort())) for _ in range(k)] for _ in range(cols)]
        S = [SV(eng.fresh("svdS", z3.RealSort())) for _ in range(k)]
        for i in range(k):
            for j in range(i, k):
                if not pU:
                    st.assume(sum((U[r][i].e * U[r][j].e for r in range(rows)), RV(0)) == (1 if i == j else 0))
                if not pV:
                    st.assume(sum((V[r][i].e * V[r][j].e for r in range(cols)), RV(0)) == (1 if i == j else 0))
        # square factors: rows are orthonormal too (left inverse = right inverse; stated to spare the solver the derivation)
        if rows == k and not pU:
            for i in range(rows):
                for j in range(i, rows):
                    st.assume(sum((U[i][c2].e * U[j][c2].e for c2 in range(k)), RV(0)) == (1 if i == j else 0))
        if cols == k and not pV:
            for i in range(cols):
                for j in range(i, cols):
                    st.assume(sum((V[i][c2].e * V[j][c2].e for c2 in range(k)), RV(0)) == (1 if i == j else 0))
        for i in range(k):
            st.assume(S[i].e >= 0)
            if i + 1 < k:
                st.assume(S[i].e >= S[i + 1].e)
        for r in range(rows):
            for c in range(cols):
                st.assume(sum((U[r][i].e * S[i].e * V[c][i].e for i in range(k)), RV(0)) == _term(eng, M[r][c]))
        _alloc_matrix(eng, st, this, rows, k, U, ty)
        _alloc_matrix(eng, st, this + 24, cols, k, V, ty)
        _alloc_matrix(eng, st, this + 48, k, 1, [[s] for s in S], ty, vector=True)
        if symmetric_psd:
            # symmetric positive semi-definite input: the SVD is an eigen-decomposition, U diag(s) U^T = M
            for r in range(rows):
                for c2 in range(cols):
                    st.assume(sum((U[r][i].e * S[i].e * U[c2][i].e for i in range(k)), RV(0)) == _term(eng, M[r][c2]))
        st.user.setdefault("svd", []).append(dict(U=U, V=V, S=S, M=M))
        if post is not None:
            post(eng, st, U, V, S, M)
        eng.contracts_hit["JacobiSVD"] = eng.contracts_hit.get("JacobiSVD", 0) + 1
        return None
    eng.overrides.append((lambda nm: tag in nm and ("C1ERKS" in nm or "C2ERKS" in nm), ctor))


# ----------------------------------------------------------------------------- LeastSquares (established by C07)

def least_squares_contract(eng):
    """LeastSquares<double>::estimateUsingSVD / estimateUsingCholeskyDecomposition: returns Ac*x + Bc where
    (J^T J) x = J^T Y over the first dataSize rows (what C07 establishes).  Deterministic: equal inputs give the
    same unknowns, so that two calls on identical problems return identical terms."""
    install_overrides(eng)
    ty = ir.DOUBLE
    cache = {}

    def layout():
        for nm, t in eng.mod.named_types.items():
            if nm.startswith("class.romea::core::LeastSquares"):
                t = t.resolve()
                # {vptr, i32 dataSize, i32 estimateSize, Matrix Ac, Vector Bc, Matrix J, Vector Y, ...}
                offs = t.offsets
                if t.elems[3].resolve().size == 24 and _is_double_matrix(t.elems[3]):
                    return offs
        raise Inconclusive("LeastSquares layout not found")

    def _is_double_matrix(t):
        return "double" in repr(_leaf(t))

    def _leaf(t):
        t = t.resolve()
        while t.k == "struct":
            t = t.elems[0].resolve()
        return t

    def estimate(eng, st, fr, ins, a):
        sret, this = a[0], a[1]
        offs = layout()
        m = eng.load(st, this + offs[1], ir.I32)
        n = eng.load(st, this + offs[2], ir.I32)
        Ac = _read(eng, st, this + offs[3])
        bdata = eng.load(st, this + offs[4], ir.PtrT(ty))
        Bc = [eng.load(st, bdata + 8 * i, ty) for i in range(n)]
        jd, jrows, jcols = _mat(eng, st, this + offs[5])
        J = [[eng.load(st, jd + (c * jrows + r) * 8, ty) for c in range(n)] for r in range(m)]
        yd = eng.load(st, this + offs[6], ir.PtrT(ty))
        Y = [eng.load(st, yd + 8 * r, ty) for r in range(m)]
        key = tuple(_term(eng, v).get_id() for row in J for v in row) + tuple(_term(eng, v).get_id() for v in Y)
        hit = cache.get(key)
        if hit is None:
            x = [eng.fresh("lsq", z3.RealSort()) for _ in range(n)]
            cache[key] = (x, [_term(eng, v) for row in J for v in row])
        else:
            x = hit[0]
        Jt = [[_term(eng, v) for v in row] for row in J]
        Yt = [_term(eng, v) for v in Y]
        for i in range(n):
            lhs = RV(0)
            for k in range(m):
                res = sum((Jt[k][j] * x[j] for j in range(n)), RV(0)) - Yt[k]
                lhs = lhs + Jt[k][i] * res
            st.assume(lhs == 0)
        out = []
        for i in range(n):
            acc = _term(eng, Bc[i])
            for j in range(n):
                aij = Ac[i][j]
                if isinstance(aij, SV) or aij != 0.0:
                    acc = acc + _term(eng, aij) * x[j]
            out.append(SV(z3.simplify(acc)))
        # result: Eigen::VectorXd {data, rows} returned through sret
        p = eng.alloc(st, max(n, 1) * 8, "heap")
        for i in range(n):
            eng.store(st, p + 8 * i, ty, out[i])
        eng.store(st, sret, ir.PtrT(ty), p)
        eng.store(st, sret + 8, ir.I64, n)
        st.user.setdefault("lsq", []).append(dict(x=x, n=n, m=m))
        eng.contracts_hit["LeastSquares::estimate"] = eng.contracts_hit.get("LeastSquares::estimate", 0) + 1
        return None
    eng.overrides.append((lambda nm: nm in ("_ZN5romea4core12LeastSquaresIdE16estimateUsingSVDEv",
                                            "_ZN5romea4core12LeastSquaresIdE34estimateUsingCholeskyDecompositionEv"), estimate))


# ----------------------------------------------------------------------------- determinant of a dynamic matrix

def determinant_contract(eng, scalar="d"):
    """Eigen::MatrixBase<MatrixX>::determinant() (PartialPivLU for dynamic sizes): returns the mathematical determinant"""
    install_overrides(eng)
    ty = ir.DOUBLE if scalar == "d" else ir.FLOAT

    def det(eng, st, fr, ins, a):
        M = _read(eng, st, a[0], ty)
        n = len(M)
        T = [[_term(eng, v) for v in row] for row in M]

        def d(A):
            k = len(A)
            if k == 1:
                return A[0][0]
            return sum((((-1) ** j) * A[0][j] * d([row[:j] + row[j + 1:] for row in A[1:]]) for j in range(k)), RV(0))
        if n > 4:
            raise Inconclusive("determinant contract: size %d" % n)
        eng.contracts_hit["determinant"] = eng.contracts_hit.get("determinant", 0) + 1
        return SV(z3.simplify(d(T)))
    eng.overrides.append((lambda nm: nm == "_ZNK5Eigen10MatrixBaseINS_6MatrixI%sLin1ELin1ELi0ELin1ELin1EEEE11determinantEv" % scalar, det))


# ----------------------------------------------------------------------------- SelfAdjointEigenSolver (fixed size)

def eigen_solver_contract(eng, scalar="d"):
    """SelfAdjointEigenSolver<Matrix<S,D,D>>::compute(block): ascending eigenvalues l, orthonormal V (columns and rows),
    C V = V diag(l).  Results are written to m_eivec / m_eivalues."""
    install_overrides(eng)
    ty = ir.DOUBLE if scalar == "d" else ir.FLOAT

    def compute(eng, st, fr, ins, a):
        this, blk = a[0], a[1]
        data = eng.load(st, blk, ir.PtrT(ty))
        rows = eng.load(st, blk + 8, ir.I64)
        cols = eng.load(st, blk + 16, ir.I64)
        base, size = eng.find_alloc(st, data)
        if base is None or not isinstance(rows, int) or rows != cols:
            raise Inconclusive("eigen-solver contract: cannot read the input block")
        import math
        ps = int(round(math.sqrt(size / ty.size)))
        D = rows
        C = [[_term(eng, eng.load(st, data + (c2 * ps + r) * ty.size, ty)) for c2 in range(D)] for r in range(D)]
        if getattr(eng, "cut_eigen_input", False):
            # cut point: the matrix handed over becomes fresh variables (shared by polynomial normal form with harness cuts)
            from .models import cut_value
            C = [[cut_value(eng, st, C[r][c2], "eigC_%d%d" % (r, c2)) if z3.is_expr(C[r][c2]) else C[r][c2] for c2 in range(D)] for r in range(D)]
        # Eigen reads the lower triangle only
        C = [[C[r][c2] if r >= c2 else C[c2][r] for c2 in range(D)] for r in range(D)]
        # the solver is a function of its input: the same matrix (same terms) gets the same decomposition
        mkey = tuple(C[r][c2].get_id() if z3.is_expr(C[r][c2]) else ("c", C[r][c2]) for r in range(D) for c2 in range(D))
        memo = st.user.setdefault("eig_memo", {})
        tthis = ins.a[1][0][0][2].resolve()
        t = tthis.elem.resolve() if tthis.k == "ptr" else None
        offs = t.offsets if t is not None and t.k == "struct" else [0, D * D * ty.size]
        if mkey in memo:
            V, L = memo[mkey]
            for c2 in range(D):
                for r in range(D):
                    eng.store(st, this + offs[0] + (c2 * D + r) * ty.size, ty, V[r][c2])
            for i in range(D):
                eng.store(st, this + offs[1] + i * ty.size, ty, L[i])
            eng.contracts_hit["SelfAdjointEigenSolver::compute"] = eng.contracts_hit.get("SelfAdjointEigenSolver::compute", 0) + 1
            return this
        V = [[SV(eng.fresh("eigV", z3.RealSort())) for _ in range(D)] for _ in range(D)]
        L = [SV(eng.fresh("eigL", z3.RealSort())) for _ in range(D)]
        memo[mkey] = (V, L)
        eng._keep.append([x for row in C for x in row if z3.is_expr(x)])
        for i in range(D):
            for j in range(i, D):
                st.assume(eng.mark_def(sum((V[r][i].e * V[r][j].e for r in range(D)), RV(0)) == (1 if i == j else 0)))
                st.assume(eng.mark_def(sum((V[i][c2].e * V[j][c2].e for c2 in range(D)), RV(0)) == (1 if i == j else 0)))
        for i in range(D - 1):
            st.assume(eng.mark_def(L[i].e <= L[i + 1].e))
        for r in range(D):
            for j in range(D):
                st.assume(eng.mark_def(sum((C[r][k2] * V[k2][j].e for k2 in range(D)), RV(0)) == L[j].e * V[r][j].e))
        # consequences of the above, stated to spare the solver the derivation: trace and (2x2) determinant
        st.assume(eng.mark_def(sum((L[i].e for i in range(D)), RV(0)) == sum((C[i][i] for i in range(D)), RV(0))))
        if D == 2:
            st.assume(eng.mark_def(L[0].e * L[1].e == C[0][0] * C[1][1] - C[0][1] * C[1][0]))
        for c2 in range(D):
            for r in range(D):
                eng.store(st, this + offs[0] + (c2 * D + r) * ty.size, ty, V[r][c2])
        for i in range(D):
            eng.store(st, this + offs[1] + i * ty.size, ty, L[i])
        st.user.setdefault("eig", []).append(dict(C=C, V=V, L=L))
        eng.contracts_hit["SelfAdjointEigenSolver::compute"] = eng.contracts_hit.get("SelfAdjointEigenSolver::compute", 0) + 1
        return this
    eng.overrides.append((lambda nm: "22SelfAdjointEigenSolverINS_6MatrixI%s" % scalar in nm and "7computeI" in nm, compute))
