"""SMT back end: one SMT-LIB2 file per query, portfolio of z3 5.1 (z3-new), z3 4.8.12 and cvc5
as subprocesses; models are re-derived through the z3 Python API."""
import os
import subprocess
import time
import threading
import hashlib
from concurrent.futures import ThreadPoolExecutor
from fractions import Fraction
import z3

SOLVERS = {
    "z3new": lambda f, t: ["z3-new", "-T:%d" % max(1, int(t)), f],
    "z3": lambda f, t: ["z3", "-T:%d" % max(1, int(t)), f],
    "cvc5": lambda f, t: ["cvc5", "--tlimit=%d" % int(t * 1000), f],
}


def to_smt2(assertions, logic):
    s = z3.Solver()
    for a in assertions:
        s.add(a)
    txt = s.to_smt2()
    head = "(set-logic %s)\n" % logic if logic else ""
    # z3's printer emits (set-info :status ...) first; logic must precede declarations
    return head + txt


def cli_logic(flags):
    """logic for the CLI solvers, by the sorts/operators occurring in the query"""
    if "fp" in flags:
        if "int" in flags or "real" in flags:
            return None
        return "QF_BVFP" if "bv" in flags else "QF_FP"
    if "bv" in flags:
        if "int" in flags or "real" in flags:
            return None
        return "QF_BV"
    if "int" in flags and "real" in flags:
        return None          # z3 default tactic is best on to_int/to_real mixes (probe)
    if "int" in flags:
        return "QF_NIA" if "nl" in flags else "QF_LIA"
    if "real" in flags:
        return "QF_NRA" if "nl" in flags else "QF_LRA"
    return None


def _run_one(solver, path, cap):
    t0 = time.time()
    try:
        p = subprocess.run(SOLVERS[solver](path, cap), capture_output=True, text=True, timeout=cap + 5)
        out = p.stdout.strip()
    except subprocess.TimeoutExpired:
        return "timeout", time.time() - t0
    first = out.split("\n")[0].strip() if out else ""
    if "(error" in out or "error" in p.stderr.lower():
        return "error", time.time() - t0
    if first in ("sat", "unsat"):
        return first, time.time() - t0
    return "unknown", time.time() - t0


def _race(path, path_cvc5, cap, solvers):
    """run several solvers concurrently; first definite answer wins"""
    procs = {}
    t0 = time.time()
    for s in solvers:
        f = path_cvc5 if s == "cvc5" else path
        if f is None:
            continue
        procs[s] = subprocess.Popen(SOLVERS[s](f, cap), stdout=subprocess.PIPE, stderr=subprocess.PIPE, text=True)
    result = ("unknown", None)
    answers = {}
    try:
        while procs and time.time() - t0 < cap + 5:
            for s, p in list(procs.items()):
                rc = p.poll()
                if rc is None:
                    continue
                out = p.stdout.read().strip()
                err = p.stderr.read()
                del procs[s]
                first = out.split("\n")[0].strip() if out else ""
                if "(error" in out:
                    answers[s] = "error"
                elif first in ("sat", "unsat"):
                    answers[s] = first
                    result = (first, s)
                    return result, answers, time.time() - t0
                else:
                    answers[s] = "unknown"
            time.sleep(0.02)
    finally:
        for p in procs.values():
            try:
                p.kill()
            except Exception:
                pass
    return result, answers, time.time() - t0


class Portfolio:
    def __init__(self, workdir, jobs=16, quick_cap=5.0, cap=30.0):
        self.workdir = workdir
        os.makedirs(workdir, exist_ok=True)
        self.jobs = jobs
        self.quick_cap = quick_cap
        self.cap = cap
        self.solver_time = {}
        self.lock = threading.Lock()
        self.n = 0
        self.cache = {}

    def _acct(self, s, t):
        with self.lock:
            self.solver_time[s] = self.solver_time.get(s, 0.0) + t

    def solve_text(self, txt, txt_cvc5, tag, cap=None, quick_only=False):
        """returns (verdict, solver, seconds, answers); identical queries are solved once"""
        h = hashlib.sha1(txt.encode()).hexdigest()[:16]
        with self.lock:
            ent = self.cache.get(h)
            owner = ent is None
            if owner:
                ent = self.cache[h] = dict(ev=threading.Event(), res=None)
        if not owner:
            ent["ev"].wait()
            v, who, secs, answers = ent["res"]
            return v, who, 0.0, dict(answers, shared=True)
        try:
            res = self._solve_text(txt, txt_cvc5, tag, h, cap or self.cap, quick_only)
        except Exception as ex:
            res = ("unknown", None, 0.0, {"exception": repr(ex)})
        ent["res"] = res
        ent["ev"].set()
        return res

    def _solve_text(self, txt, txt_cvc5, tag, h, cap, quick_only=False):
        path = os.path.join(self.workdir, "%s-%s-%d.smt2" % (tag, h, os.getpid()))
        with open(path, "w") as f:
            f.write(txt)
        path5 = None
        if txt_cvc5 is not None:
            path5 = os.path.join(self.workdir, "%s-%s-%d.cvc5.smt2" % (tag, h, os.getpid()))
            with open(path5, "w") as f:
                f.write(txt_cvc5)
        t0 = time.time()
        r, t = _run_one("z3new", path, min(self.quick_cap, cap))
        self._acct("z3new", t)
        answers = {"z3new": r}
        if r in ("sat", "unsat"):
            self._cleanup(path, path5)
            return r, "z3new", time.time() - t0, answers
        if quick_only:
            self._cleanup(path, path5)
            return "unknown", None, time.time() - t0, answers
        (verdict, who), ans2, t = _race(path, path5, cap, ["z3", "cvc5", "z3new"])
        for s in ans2:
            self._acct(s, t)
        answers.update({k + "#2": v for k, v in ans2.items()})
        if verdict in ("sat", "unsat"):
            self._cleanup(path, path5)
        return verdict, who, time.time() - t0, answers

    def _cleanup(self, *paths):
        for p in paths:
            if p:
                try:
                    os.remove(p)
                except OSError:
                    pass

    def solve_all(self, queries):
        """queries: list of dict(tag, txt, txt_cvc5); returns list of results in order"""
        with ThreadPoolExecutor(max_workers=self.jobs) as ex:
            futs = [ex.submit(self.solve_text, q["txt"], q.get("txt_cvc5"), q["tag"]) for q in queries]
            return [f.result() for f in futs]


def z3num_to_float(v):
    if z3.is_int_value(v):
        return v.as_long()
    if z3.is_rational_value(v):
        return float(Fraction(v.numerator_as_long(), v.denominator_as_long()))
    if z3.is_algebraic_value(v):
        a = v.approx(30)
        return float(Fraction(a.numerator_as_long(), a.denominator_as_long()))
    if z3.is_fp_value(v) or z3.is_fp(v):
        s = z3.simplify(z3.fpToIEEEBV(v))
        if z3.is_bv_value(s):
            import struct
            n = s.size()
            b = s.as_long()
            return struct.unpack("<d", struct.pack("<Q", b))[0] if n == 64 else struct.unpack("<f", struct.pack("<I", b))[0]
    if z3.is_bv_value(v):
        return v.as_long()
    if z3.is_true(v):
        return 1
    if z3.is_false(v):
        return 0
    raise ValueError("cannot convert model value %s" % v)


def get_model(assertions, logic, inputs, timeout_ms=20000):
    """inputs: {name: z3 const}.  returns {name: python number} or None"""
    for lg in (logic, None):
        try:
            s = z3.SolverFor(lg) if lg else z3.Solver()
        except z3.Z3Exception:
            continue
        s.set("timeout", timeout_ms)
        for a in assertions:
            s.add(a)
        if s.check() == z3.sat:
            m = s.model()
            out = {}
            for name, c in inputs.items():
                v = m.eval(c, model_completion=True)
                try:
                    out[name] = z3num_to_float(v)
                except Exception:
                    out[name] = 0
            return out
    return None


def local_check(assertions, logic, timeout_ms, flags=()):
    """in-process portfolio (z3's search is fragile on to_int/nonlinear mixes: the same query can take
    0.05 s with one strategy and time out with another), then the CLI solvers.  -> (verdict, model|None)"""
    short = min(timeout_ms, 1500)
    makers = []
    if logic:
        makers.append(lambda: z3.SolverFor(logic))
    makers.append(lambda: z3.Tactic("default").solver())
    makers.append(lambda: z3.Solver())
    for mk in makers:
        try:
            s = mk()
        except z3.Z3Exception:
            continue
        s.set("timeout", short)
        for a in assertions:
            s.add(a)
        try:
            r = s.check()
        except z3.Z3Exception:
            continue
        if r == z3.sat:
            return "sat", s.model()
        if r == z3.unsat:
            return "unsat", None
    if timeout_ms < 1000:
        return "unknown", None       # tiny budgets: no process spawning
    # CLI race with the full budget
    import tempfile
    lg = cli_logic(set(flags))
    txt = to_smt2(assertions, lg)
    fd, path = tempfile.mkstemp(suffix=".smt2", prefix="feas")
    with os.fdopen(fd, "w") as f:
        f.write(txt)
    path5 = None
    if "bv2int" not in txt and "int2bv" not in txt:
        path5 = path + ".cvc5.smt2"
        with open(path5, "w") as f:
            f.write(txt if lg else "(set-logic ALL)\n" + txt)
    try:
        (verdict, who), answers, t = _race(path, path5, max(timeout_ms / 1000.0, 2.0), ["z3", "z3new", "cvc5"])
    finally:
        for p in (path, path5):
            if p:
                try:
                    os.remove(p)
                except OSError:
                    pass
    if verdict in ("sat", "unsat"):
        return verdict, None
    return "unknown", None


def cli_value(assertions, expr, timeout=20):
    """value of an integer expression in some model, through the CLI solvers"""
    import tempfile
    import re
    txt = to_smt2(assertions, None) + "(get-value (%s))\n" % expr.sexpr()
    fd, path = tempfile.mkstemp(suffix=".smt2", prefix="val")
    with os.fdopen(fd, "w") as f:
        f.write(txt)
    try:
        for s in ("z3", "z3new"):
            try:
                p = subprocess.run(SOLVERS[s](path, timeout), capture_output=True, text=True, timeout=timeout + 5)
            except subprocess.TimeoutExpired:
                continue
            out = p.stdout.strip()
            if not out.startswith("sat"):
                continue
            tail = out[out.rindex(expr.sexpr()[-20:]) + 20:] if expr.sexpr()[-20:] in out else out.split("\n")[-1]
            m = re.search(r"\(-\s*(\d+)\)\)*\s*$", tail)
            if m:
                return -int(m.group(1))
            m = re.search(r"(\d+)\)*\s*$", tail)
            if m:
                return int(m.group(1))
    finally:
        os.remove(path)
    return None
